#!/usr/bin/env python3
"""C01 translator: every loop of the evaluator and of the builtins, and whether one iteration must pass the halt poll.

For each while/do/for statement of lib/run.c, fnc.c, mod-str.c, mod-hawk.c, mod-math.c, val.c, rec.c, misc.c a row
  (file, function, line, kind, class, polled, cond)
class — what bounds the number of iterations (decided by the shape of the controlling expression):
  script : `while (1)`, `do .. while (1)`, `for (;;)`, or a condition made only of rtx->exit_level tests, AND the body
           can (transitively, call graph of the file) reach run_statement/eval_expression/hawk_rtx_callfun — the
           iteration count is decided by script control flow, unbounded;
  retry  : same condition shapes but the body evaluates no script code (buffer-growth retry loops); not covered by
           halt_polled, listed explicitly in Props/C01.lean (`retry_loops_known`);
  count  : the condition reads a local that received a script number through hawk_rtx_valtoint/valtonum/valtoflt
           (address passed to the converter in the same function) and the body steps it by one — unbounded w.r.t. memory;
  log    : same, but the body halves the counter (`>>=`) — at most 64 iterations;
  data   : anything else: a walk over an in-memory structure (AST list, argument vector, string, container),
           bounded by the size of that structure.
polled — the loop condition itself tests rtx->exit_level (which hawk_rtx_halt sets), or
  every path through one iteration that stays in the loop passes a halt poll point first: the ON_STATEMENT
  expansion (recognised by its read of hawk->haltall followed by the ecb->stmt walk) or a call of run_statement(),
  whose first action is ON_STATEMENT.  Exits (return/goto/break) are vacuous.  `A || B` evaluated to false and
  `A && B` evaluated to true have evaluated both operands.
`halt_polled` (Props/C01.lean) demands polled for every script/count row.
Output: lean/HawkModel/Gen/Loops.lean
"""
import os, sys
HERE = os.path.dirname(os.path.abspath(__file__))
sys.path.insert(0, HERE)
import c01_clang as A  # noqa: E402
from c01_clang import kids, strip, unparse, Unknown, C  # noqa: E402

FILES = ["run.c", "fnc.c", "mod-str.c", "mod-hawk.c", "mod-math.c", "val.c", "rec.c", "misc.c"]
CONVERTERS = ("hawk_rtx_valtoint", "hawk_rtx_valtonum", "hawk_rtx_valtoflt")
POLL_CALLS = ("run_statement", "run_statement_withdc")


def callee(n):
    n = strip(n)
    if n.get("kind") == "CallExpr":
        f = strip(kids(n)[0])
        if f.get("kind") == "DeclRefExpr":
            return f["referencedDecl"]["name"]
    return None


def has_poll(n):
    """expression/statement subtree contains a poll point that is evaluated whenever the subtree root is (no
    short-circuit / branch analysis here: callers decide which subtrees are certainly evaluated)"""
    found = [False]

    def f(x, d):
        if x.get("kind") == "CallExpr" and callee(x) in POLL_CALLS:
            found[0] = True
        if x.get("kind") == "MemberExpr" and x.get("name") == "haltall":
            found[0] = True
    A.walk(n, f)
    return found[0]


def surely(n, outcome):
    """poll certainly evaluated when condition n evaluates to `outcome` (None = any outcome)"""
    n = strip(n)
    k, c = n.get("kind"), kids(n)
    if k == "CallExpr" and callee(n) == "__builtin_expect":
        return surely(c[1], outcome)
    if k == "UnaryOperator" and n.get("opcode") == "!":
        return surely(c[0], None if outcome is None else (not outcome))
    if k == "BinaryOperator" and n.get("opcode") in ("&&", "||"):
        both = (n["opcode"] == "&&" and outcome is True) or (n["opcode"] == "||" and outcome is False)
        if both:
            return surely(c[0], outcome) or surely(c[1], outcome)
        return surely(c[0], None)
    if k == "ConditionalOperator":
        return surely(c[0], None)
    return has_poll(n)


def exits(n):
    """statement never falls through inside the loop (ends in return/goto/break)"""
    k, c = n.get("kind"), kids(n)
    if k in ("ReturnStmt", "GotoStmt", "BreakStmt"):
        return True
    if k == "CompoundStmt":
        return any(exits(x) for x in c)
    if k == "IfStmt":
        return len(c) > 2 and exits(c[1]) and exits(c[2])
    return False


def must(n):
    """every path through n that falls through has passed a poll point.
    Returns 'yes' | 'no' | 'cont' (a `continue` of this loop can be reached before any poll)"""
    k, c = n.get("kind"), kids(n)
    if k == "ContinueStmt":
        return "cont"
    if k in ("ReturnStmt", "GotoStmt", "BreakStmt"):
        return "yes"
    if k == "CompoundStmt":
        for x in c:
            r = must(x)
            if r != "no":
                return r
        return "no"
    if k == "IfStmt":
        if surely(c[0], None):
            return "yes"
        th, el = c[1], (c[2] if len(c) > 2 else None)
        if exits(th) and surely(c[0], False):
            return "yes"
        rt = "yes" if exits(th) else must(th)
        re_ = ("yes" if exits(el) else must(el)) if el is not None else "no"
        if "cont" in (rt, re_):
            return "cont"
        return "yes" if (rt == "yes" and re_ == "yes") else "no"
    if k == "DoStmt" and has_poll(n):
        # the `do { ... } while (0)` of the ON_STATEMENT macro itself
        cnd = strip(c[1])
        if cnd.get("kind") == "IntegerLiteral" and cnd.get("value") == "0":
            return "yes"
        return "no"
    if k in ("WhileStmt", "ForStmt", "DoStmt", "SwitchStmt", "LabelStmt", "CaseStmt", "DefaultStmt"):
        return "no"
    if k in ("DeclStmt",):
        return "yes" if any(has_poll(x) for x in c) else "no"
    if k == "NullStmt":
        return "no"
    return "yes" if has_poll(n) else "no"


def script_numbers(body):
    """locals whose address is handed to a value->number converter anywhere in the function"""
    out = set()

    def f(x, d):
        if x.get("kind") == "CallExpr" and callee(x) in CONVERTERS:
            for a in kids(x)[1:]:
                a = strip(a)
                if a.get("kind") == "UnaryOperator" and a.get("opcode") == "&":
                    t = strip(kids(a)[0])
                    if t.get("kind") == "DeclRefExpr":
                        out.add(t["referencedDecl"]["name"])
    A.walk(body, f)
    return out


def idents(n):
    out = set()

    def f(x, d):
        if x.get("kind") == "DeclRefExpr":
            out.add(x["referencedDecl"]["name"])
    A.walk(n, f)
    return out


def halves(body, var):
    found = [False]

    def f(x, d):
        if x.get("kind") == "CompoundAssignOperator" and x.get("opcode") in (">>=",):
            l = strip(kids(x)[0])
            if l.get("kind") == "DeclRefExpr" and l["referencedDecl"]["name"] == var:
                found[0] = True
    A.walk(body, f)
    return found[0]


SEEDS = ("run_statement", "eval_expression", "eval_expression0", "hawk_rtx_callfun", "hawk_rtx_evalcall")


def calls_in(n):
    out = set()

    def f(x, d):
        if x.get("kind") == "CallExpr" and callee(x):
            out.add(callee(x))
    A.walk(n, f)
    return out


def evaluators(funcs):
    """functions of the file that can (transitively) evaluate script code"""
    g = {name: calls_in(body) for name, _, body in funcs}
    reach = set(SEEDS)
    changed = True
    while changed:
        changed = False
        for f, cs in g.items():
            if f not in reach and cs & reach:
                reach.add(f)
                changed = True
    return reach


def conjuncts(n):
    n = strip(n)
    if n.get("kind") == "BinaryOperator" and n.get("opcode") == "&&":
        return conjuncts(kids(n)[0]) + conjuncts(kids(n)[1])
    return [n]


def mentions_exit_level(n):
    found = [False]

    def f(x, d):
        if x.get("kind") == "MemberExpr" and x.get("name") == "exit_level":
            found[0] = True
    A.walk(n, f)
    return found[0]


def classify(loop, numvars, evals):
    k = loop["kind"]
    raw = loop.get("inner")
    if k == "WhileStmt":
        cnd, body = raw[0], raw[1]
    elif k == "DoStmt":
        body, cnd = raw[0], raw[1]
    else:
        if len(raw) != 5:
            raise Unknown("for statement with %d parts at line %d" % (len(raw), A.line_of(loop)))
        cnd, body = raw[2], raw[4]
    unbounded_cls = "script" if (body and calls_in(body) & evals) else "retry"
    if not cnd:
        return unbounded_cls, "", body, False
    txt = unparse(cnd)
    s = strip(cnd)
    if s.get("kind") == "IntegerLiteral":
        if s.get("value") == "0":
            return "once", txt, body, False       # do { } while (0)
        return unbounded_cls, txt, body, False
    cj = conjuncts(cnd)
    polls = any(mentions_exit_level(x) for x in cj)
    if all(mentions_exit_level(x) for x in cj):
        return unbounded_cls, txt, body, polls
    nv = idents(cnd) & numvars
    if nv:
        if all(halves(body, v) for v in nv):
            return "log", txt, body, polls
        return "count", txt, body, polls
    return "data", txt, body, polls


def analyse_file(fname):
    path = os.path.join(C.REPO, "lib", fname)
    ast, src = A.load_ast(path)
    rows = []
    funcs = A.functions(ast, path)
    evals = evaluators(funcs)
    for name, decl, fbody in funcs:
        numvars = script_numbers(fbody)

        def f(x, d, name=name, numvars=numvars):
            if x.get("kind") in ("WhileStmt", "DoStmt", "ForStmt"):
                cls, txt, body, cpoll = classify(x, numvars, evals)
                if cls == "once":
                    return
                r = must(body) if body else "no"
                rows.append(dict(file=fname, fn=name, line=A.line_of(x), kind={"WhileStmt": "while", "DoStmt": "do", "ForStmt": "for"}[x["kind"]],
                                 cls=cls, polled=(r == "yes" or cpoll), cond=txt[:80]))
        A.walk(fbody, f)
    return rows


def generate():
    rows = []
    for f in FILES:
        rows += analyse_file(f)
    need = {("run.c", "run_while"): 2, ("run.c", "run_for"): 1, ("run.c", "run_forin"): 2, ("run.c", "run_block0"): 1}
    for (fl, fn), n in need.items():
        got = len([r for r in rows if r["file"] == fl and r["fn"] == fn and r["polled"]])
        if got < n:
            # not a translator failure: the row(s) are in the table as unpolled and the theorem will fail; but if the
            # function vanished entirely the translator no longer understands run.c
            if not [r for r in rows if r["file"] == fl and r["fn"] == fn]:
                raise Unknown("no loop found in %s:%s" % (fl, fn))
    L = ["/-! GENERATED by extract/loops.py — do not edit.  One row per loop statement; see the script for the rules. -/",
         "namespace Hawk.Gen.Loops", "",
         "inductive Cls where", "  | script | count | log | retry | data", "  deriving DecidableEq, Repr", "",
         "structure Row where", "  file : String", "  fn : String", "  line : Nat", "  kind : String", "  cls : Cls",
         "  polled : Bool", "  cond : String", "", "def rows : List Row := ["]
    L.append(",\n".join("  ⟨%s, %s, %d, %s, .%s, %s, %s⟩" % (A.lean_str(r["file"]), A.lean_str(r["fn"]), r["line"], A.lean_str(r["kind"]),
                                                            r["cls"], "true" if r["polled"] else "false", A.lean_str(r["cond"])) for r in rows))
    L += ["]", "", "end Hawk.Gen.Loops", ""]
    return "\n".join(L), rows


def main():
    txt, rows = generate()
    out = os.path.join(C.LEAN, "HawkModel", "Gen", "Loops.lean")
    ch = C.write_if_changed(out, txt)
    by = {}
    for r in rows:
        by[(r["cls"], r["polled"])] = by.get((r["cls"], r["polled"]), 0) + 1
    print("loops: %d loops %s -> %s%s" % (len(rows), sorted(by.items()), out, " (changed)" if ch else ""))
    return rows


if __name__ == "__main__":
    rows = main()
    if "-v" in sys.argv:
        for r in rows:
            if r["cls"] != "data" or "-vv" in sys.argv:
                print("%-10s %-28s %5d %-5s %-6s %-5s %s" % (r["file"], r["fn"], r["line"], r["kind"], r["cls"], r["polled"], r["cond"]))
