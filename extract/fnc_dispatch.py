#!/usr/bin/env python3
"""C01 translator: which value-type tags dominate each cast of a hawk_val_t* to a concrete value struct.

For every function of lib/fnc.c, lib/mod-str.c, lib/mod-hawk.c (the builtins) and lib/misc.c, std.c, rec.c, rio.c a forward analysis over the clang-14 AST
tracks, per tested expression S, the set of type tags HAWK_RTX_GETVALTYPE(rtx,S) can have at each point:
  * `switch (VT(S))` / `switch (vtype)` with `vtype = VT(S)` earlier: the case labels that reach a
    statement (fall-through labels accumulate; `default` = complement of all labels of the switch);
    the state after the switch is the join of its `break`s, its last fall-through and (no default) the
    "no label matched" state,
  * `if (VT(S) == T)`, `!=`, `&&`, `||`, `!`, `?:`, early exits (`if (VT(S) != T) return ...;`),
  * a value that was just produced by a constructor (hawk_rtx_makemapval ...) has that constructor's tag,
  * an argument fetched by hawk_rtx_getarg(rtx,i) of a builtin whose argument spec (third field of the
    builtin table entry, e.g. "rrv") has 'r'/'R' at position i is a HAWK_VAL_REF (the evaluator builds the
    reference before the call; trusted).  Helpers are analysed once per calling builtin (context = that
    builtin's spec + integer literals passed for parameters), so `getarg(rtx, 2 + support_start_index)` resolves,
  * `t = hawk_rtx_getrefvaltype(rtx, R)` / `v = hawk_rtx_getrefval(rtx, R)`: tests on `t` constrain `v`,
  * any assignment to a variable / passing its address forgets what is known about it; a label starts from the
    join of the states at its `goto`s (iterated, starting from "nothing known") and the fall-through;
    a loop forgets what its body assigns.
Every `(hawk_val_<k>_t*)E` cast yields a row (function, line, struct, subject, via, tags).  A cast that is reached
with no knowledge gets ALL tags -> the Lean theorem `tagged_value_dispatch` is false for that row.
Unknown statement kinds raise -> the check fails closed.

Not covered: lib/run.c and lib/val.c (dispatch through tables of functions indexed by the type pair, e.g. __cmp_val, and
the constructors/collector that create the objects) — the analysis leaves 60 + 22 casts there without a dominating test.
Output: lean/HawkModel/Gen/FncDispatch.lean
"""
import os, re, sys
HERE = os.path.dirname(os.path.abspath(__file__))
sys.path.insert(0, HERE)
import c01_clang as A  # noqa: E402
from c01_clang import kids, strip, unparse, Unknown, C  # noqa: E402

TAGS = ["NIL", "CHAR", "BCHR", "INT", "FLT", "STR", "MBS", "FUN", "MAP", "ARR", "REX", "REF"]
ALL = frozenset(TAGS)
STRUCTS = {"hawk_val_nil_t": "nil", "hawk_val_int_t": "int", "hawk_val_flt_t": "flt", "hawk_val_str_t": "str",
           "hawk_val_mbs_t": "mbs", "hawk_val_fun_t": "fun", "hawk_val_map_t": "map", "hawk_val_arr_t": "arr",
           "hawk_val_rex_t": "rex", "hawk_val_ref_t": "ref"}
CTORS = [(re.compile(r"^hawk_rtx_maken?strval"), "STR"), (re.compile(r"^hawk_rtx_makembsval"), "MBS"),
         (re.compile(r"^hawk_rtx_makemapval"), "MAP"), (re.compile(r"^hawk_rtx_makearrval"), "ARR"),
         (re.compile(r"^hawk_rtx_makefltval"), "FLT"), (re.compile(r"^hawk_rtx_makerexval"), "REX"),
         (re.compile(r"^hawk_rtx_makefunval"), "FUN"), (re.compile(r"^hawk_rtx_makerefval"), "REF")]
FILES = ["fnc.c", "mod-str.c", "mod-hawk.c", "misc.c", "std.c", "rec.c", "rio.c"]
IDENT = re.compile(r"[A-Za-z_]\w*")


class St:
    def __init__(self, t=None, a=None, via=None):
        self.t = dict(t or {})      # subject text -> frozenset(tags)
        self.a = dict(a or {})      # variable -> subject text (variable holds the type tag of subject)
        self.via = dict(via or {})  # subject text -> how the knowledge was obtained

    def copy(self):
        return St(self.t, self.a, self.via)

    def kill(self, var):
        for s in [s for s in self.t if var in IDENT.findall(s)]:
            del self.t[s]
            self.via.pop(s, None)
        for v in [v for v, s in self.a.items() if v == var or var in IDENT.findall(s)]:
            del self.a[v]

    def refine(self, subj, tags):
        self.t[subj] = self.t.get(subj, ALL) & frozenset(tags)
        old = self.via.get(subj)
        self.via[subj] = "guard" if old in (None, "guard") else (old if "guard" in old else old + "+guard")

    def set(self, subj, tags, via):
        self.t[subj] = frozenset(tags)
        self.via[subj] = via


def join(x, y):
    """least upper bound; None = unreachable"""
    if x is None:
        return y
    if y is None:
        return x
    r = St()
    for s in x.t:
        if s in y.t:
            r.t[s] = x.t[s] | y.t[s]
            vx, vy = x.via.get(s, "guard"), y.via.get(s, "guard")
            r.via[s] = vx if vx == vy else "+".join(sorted(set(vx.split("+")) | set(vy.split("+"))))
    for v in x.a:
        if y.a.get(v) == x.a[v]:
            r.a[v] = x.a[v]
    return r


class Fn:
    def __init__(self, prog, name, spec, consts, depth):
        self.prog = prog
        self.file = prog.fname
        self.name = name
        self.spec = spec       # None = not reached from a builtin table entry; else the argument spec string
        self.consts = dict(consts)
        self.depth = depth
        self.rows = {}
        self.brk = []          # stack: list collecting `break` states of the innermost switch, or None for a loop
        self.gotos = {}        # label id -> joined state at its goto sites, from the previous pass
        self.gotos_next = {}
        self.first_pass = True
        self.record = False

    # ---- helpers --------------------------------------------------------------------------------------------
    def tagconst(self, n):
        n = strip(n)
        if n.get("kind") == "DeclRefExpr":
            nm = n["referencedDecl"]["name"]
            if nm.startswith("HAWK_VAL_") and nm[9:] in ALL:
                return nm[9:]
        return None

    def callee(self, n):
        n = strip(n)
        if n.get("kind") == "CallExpr":
            f = strip(kids(n)[0])
            if f.get("kind") == "DeclRefExpr":
                return f["referencedDecl"]["name"]
        return None

    def idx_values(self, n):
        """set of integers an argument-index expression can take, or None"""
        n = strip(n)
        k = n.get("kind")
        c = kids(n)
        if k == "IntegerLiteral":
            return {int(n["value"])}
        if k == "DeclRefExpr":
            nm = n["referencedDecl"]["name"]
            return {self.consts[nm]} if nm in self.consts else None
        if k == "BinaryOperator" and n.get("opcode") in ("+", "-"):
            a, b = self.idx_values(c[0]), self.idx_values(c[1])
            if a is None or b is None:
                return None
            return {(x + y) if n["opcode"] == "+" else (x - y) for x in a for y in b}
        if k == "BinaryOperator" and n.get("opcode") in ("<", ">", "<=", ">=", "==", "!="):
            return {0, 1}
        return None

    def spec_tags(self, call):
        """tags guaranteed for hawk_rtx_getarg(rtx, i) by the argument spec of the builtin being analysed"""
        if self.spec is None:
            return None
        vals = self.idx_values(kids(strip(call))[2])
        if not vals:
            return None
        sp = self.spec
        for i in vals:
            ch = sp[i] if 0 <= i < len(sp) else (sp[-1] if sp and sp[-1] == "R" else "v")
            if ch not in ("r", "R"):
                return None
        return ["REF"]

    def subject_of(self, n, st):
        """if expression n denotes 'the type tag of S', return S (text)"""
        n = strip(n)
        s = A.is_valtype_macro(n)
        if s is not None:
            return unparse(s)
        if n.get("kind") == "DeclRefExpr" and n["referencedDecl"]["name"] in st.a:
            return st.a[n["referencedDecl"]["name"]]
        if self.callee(n) == "hawk_rtx_getrefvaltype":
            return "*" + self.refarg(n)
        return None

    def refarg(self, call):
        a = strip(kids(strip(call))[2])
        while a.get("kind") == "CStyleCastExpr":
            a = strip(kids(a)[0])
        return unparse(a)

    # ---- expressions -----------------------------------------------------------------------------------------
    def cond(self, n, st):
        """(state if n is true, state if n is false); also scans n for casts in evaluation order"""
        n = strip(n)
        k = n.get("kind")
        c = kids(n)
        if k == "CallExpr" and self.callee(n) == "__builtin_expect":
            return self.cond(c[1], st)
        if k == "UnaryOperator" and n.get("opcode") == "!":
            t, f = self.cond(c[0], st)
            return f, t
        if k == "BinaryOperator" and n.get("opcode") == "&&":
            t1, f1 = self.cond(c[0], st)
            t2, f2 = self.cond(c[1], t1)
            return t2, join(f1, f2)
        if k == "BinaryOperator" and n.get("opcode") == "||":
            t1, f1 = self.cond(c[0], st)
            t2, f2 = self.cond(c[1], f1)
            return join(t1, t2), f2
        if k == "BinaryOperator" and n.get("opcode") in ("==", "!="):
            for a, b in ((c[0], c[1]), (c[1], c[0])):
                tag = self.tagconst(b)
                subj = self.subject_of(a, st) if tag else None
                if tag and subj is not None:
                    self.expr(a, st)
                    yes, no = st.copy(), st.copy()
                    yes.refine(subj, [tag])
                    no.refine(subj, ALL - {tag})
                    self.prog.nif += self.record
                    return (yes, no) if n["opcode"] == "==" else (no, yes)
        self.expr(n, st)
        return st.copy(), st.copy()

    def assign(self, lhs_text, rhs, st):
        """effects of  lhs = rhs  (rhs already scanned)"""
        if IDENT.fullmatch(lhs_text):
            st.kill(lhs_text)
        else:
            st.t.pop(lhs_text, None)
        if rhs is None:
            return
        r = strip(rhs)
        while r.get("kind") == "CStyleCastExpr":
            r = strip(kids(r)[0])
        s = A.is_valtype_macro(r)
        if s is not None:
            if IDENT.fullmatch(lhs_text):
                st.a[lhs_text] = unparse(s)
            return
        cal = self.callee(r)
        if not cal:
            return
        for rx, tag in CTORS:
            if rx.match(cal):
                st.set(lhs_text, [tag], "ctor")
                return
        if cal == "hawk_rtx_getarg":
            tg = self.spec_tags(r)
            if tg:
                st.set(lhs_text, tg, "argspec")
        elif cal == "hawk_rtx_getrefvaltype" and IDENT.fullmatch(lhs_text):
            st.a[lhs_text] = "*" + self.refarg(r)
        elif cal == "hawk_rtx_getrefval":
            target = "*" + self.refarg(r)
            if target in st.t:
                st.set(lhs_text, st.t[target], st.via.get(target, "guard"))

    def expr(self, n, st):
        """scan an expression in evaluation order, recording casts and applying kills to st"""
        k = n.get("kind")
        c = kids(n)
        if k == "BinaryOperator" and n.get("opcode") in ("&&", "||"):
            t1, f1 = self.cond(c[0], st)
            self.expr(c[1], t1 if n["opcode"] == "&&" else f1)
            for v in self.assigned_in(c[1]):
                st.kill(v) if IDENT.fullmatch(v) else st.t.pop(v, None)
            return
        if k == "ConditionalOperator":
            s = A.is_valtype_macro(n)
            if s is not None:
                self.expr(s, st)
                return
            t, f = self.cond(c[0], st)
            self.expr(c[1], t)
            self.expr(c[2], f)
            for v in self.assigned_in(c[1]) | self.assigned_in(c[2]):
                st.kill(v) if IDENT.fullmatch(v) else st.t.pop(v, None)
            return
        if k == "BinaryOperator" and n.get("opcode") == "=":
            self.expr(c[1], st)
            l = strip(c[0])
            if l.get("kind") != "DeclRefExpr":
                self.expr(l, st)
            self.assign(unparse(l), c[1], st)
            return
        if k == "CompoundAssignOperator" or (k == "UnaryOperator" and n.get("opcode") in ("++", "--")):
            for x in c:
                self.expr(x, st)
            self.assign(unparse(strip(c[0])), None, st)
            return
        if k == "UnaryOperator" and n.get("opcode") == "&":
            self.expr(c[0], st)
            l = strip(c[0])
            if l.get("kind") == "DeclRefExpr":
                st.kill(l["referencedDecl"]["name"])
            return
        if k == "StmtExpr":
            for x in c:
                self.stmt(x, st)
            return
        if k == "CStyleCastExpr":
            q = n["type"]["qualType"].replace("const ", "").replace(" ", "")
            m = re.fullmatch(r"(?:struct)?(hawk_val_\w+_t)\*", q)
            if m and m.group(1) in STRUCTS:
                b = n["range"]["begin"]
                sp = A.sloc(b)
                subj = unparse(c[0])
                if "expansionLoc" in b and not b["expansionLoc"].get("isMacroArgExpansion") and (sp.get("_file") or "").endswith(".h"):
                    # a cast written inside a header macro body: only the audited int accessor
                    # (HAWK_RTX_GETINTFROMVAL: `HAWK_VTR_IS_INT(p)? ... : ((hawk_val_int_t*)(p))->i_val`) is accepted
                    if STRUCTS[m.group(1)] != "int":
                        raise Unknown("%s:%d: cast to %s hidden in a header macro" % (self.file, A.line_of(n), m.group(1)))
                elif self.record:
                    tags, via = st.t.get(subj, ALL), (st.via.get(subj, "none") if subj in st.t else "none")
                    if self.callee(c[0]) == "hawk_rtx_getarg" and self.spec_tags(c[0]):
                        tags, via = frozenset(self.spec_tags(c[0])), "argspec"
                    key = (A.line_of(n), STRUCTS[m.group(1)], subj)
                    if key in self.rows:
                        self.rows[key]["tags"] |= set(tags)
                    else:
                        self.rows[key] = dict(file=self.file, fn=self.name, line=key[0], to=key[1], subj=subj, via=via, tags=set(tags))
        for x in c:
            self.expr(x, st)
        if k == "CallExpr" and self.record:
            cal = self.callee(n)
            if cal in self.prog.funcs and cal != self.name:
                consts = {}
                for pn, a in zip(self.prog.params[cal], c[1:]):
                    v = self.idx_values(a)
                    if v and len(v) == 1:
                        consts[pn] = next(iter(v))
                self.prog.analyse(cal, self.spec, consts, self.depth + 1)

    # ---- statements -----------------------------------------------------------------------------------------
    def assigned_in(self, n):
        out = set()

        def f(x, d):
            k = x.get("kind")
            if (k == "BinaryOperator" and x.get("opcode") == "=") or k == "CompoundAssignOperator" or \
               (k == "UnaryOperator" and x.get("opcode") in ("++", "--", "&")):
                l = strip(kids(x)[0])
                if l.get("kind") == "DeclRefExpr":
                    out.add(l["referencedDecl"]["name"])
                else:
                    out.add(unparse(l))
        A.walk(n, f)
        return out

    def forget(self, st, body):
        st = st.copy()
        for v in self.assigned_in(body):
            st.kill(v) if IDENT.fullmatch(v) else st.t.pop(v, None)
        return st

    def label_chain(self, x):
        while x.get("kind") in ("CaseStmt", "DefaultStmt"):
            yield x
            x = kids(x)[-1]

    def after_labels(self, x):
        while x.get("kind") in ("CaseStmt", "DefaultStmt"):
            x = kids(x)[-1]
        return x

    def stmt(self, n, st):
        """st: state before n (None = unreachable).  Returns the state after n, None if control never falls through."""
        k = n.get("kind")
        c = kids(n)
        if k == "LabelStmt":
            lab = n.get("declId")
            g = St() if self.first_pass else self.gotos.get(lab)
            return self.stmt(c[-1], join(st, g))
        if k == "CompoundStmt":
            cur = st
            for x in c:
                cur = self.stmt(x, cur)
            return cur
        if st is None:
            # unreachable code (after return/goto, no label): analyse conservatively so its casts still get rows
            st = St()
        if k == "IfStmt":
            t, f = self.cond(c[0], st)
            ot = self.stmt(c[1], t)
            of = self.stmt(c[2], f) if len(c) > 2 else f
            return join(ot, of)
        if k == "SwitchStmt":
            self.expr(c[0], st)
            subj = self.subject_of(c[0], st)
            body = c[1]
            if body.get("kind") != "CompoundStmt":
                raise Unknown("%s:%d: switch body is not a block" % (self.file, A.line_of(n)))
            entry = st.copy()
            labels, has_default = set(), False
            for x in kids(body):
                for y in self.label_chain(x):
                    if y["kind"] == "DefaultStmt":
                        has_default = True
                    elif subj is not None:
                        t = self.tagconst(kids(y)[0])
                        if t is None:
                            raise Unknown("%s:%d: case label is not a HAWK_VAL_ constant" % (self.file, A.line_of(y)))
                        labels.add(t)
            if subj is not None:
                self.prog.nswitch += self.record
            known = st.t.get(subj, ALL) if subj is not None else None
            cur, curtags = None, set()
            self.brk.append([])
            for x in kids(body):
                chain = list(self.label_chain(x))
                if chain:
                    e = entry.copy()
                    if subj is not None:
                        newl = set()
                        for y in chain:
                            newl |= ({self.tagconst(kids(y)[0])} if y["kind"] == "CaseStmt" else (ALL - labels))
                        tags = newl | (curtags if cur is not None else set())
                        v0 = st.via.get(subj, "guard")
                        e.set(subj, known & frozenset(tags), v0 if "guard" in v0 else v0 + "+guard")
                        if cur is not None:
                            cur = cur.copy()
                            cur.set(subj, known & frozenset(tags), e.via[subj])
                        curtags = tags
                    cur = join(cur, e)
                cur = self.stmt(self.after_labels(x), cur)
            exits = self.brk.pop()
            if not has_default:
                e = entry.copy()
                if subj is not None:
                    e.refine(subj, ALL - labels)
                exits.append(e)
            out = cur
            for e in exits:
                out = join(out, e)
            return out
        if k in ("WhileStmt", "DoStmt", "ForStmt"):
            e = self.forget(st, n)
            self.brk.append(None)
            if k == "WhileStmt":
                t, f = self.cond(c[0], e)
                self.stmt(c[1], t)
            elif k == "DoStmt":
                self.stmt(c[0], e.copy())
                self.expr(c[1], e.copy())
            else:
                raw = n.get("inner")   # init, condvar, cond, inc, body ; absent parts are {}
                if len(raw) != 5:
                    raise Unknown("%s:%d: for statement with %d parts" % (self.file, A.line_of(n), len(raw)))
                init, cnd, inc, body = raw[0], raw[2], raw[3], raw[4]
                if init:
                    self.stmt(init, e)
                    e = self.forget(e, n)
                t = e.copy()
                if cnd:
                    t, f = self.cond(cnd, e)
                self.stmt(body, t)
                if inc:
                    self.expr(inc, self.forget(e, n))
            self.brk.pop()
            return e
        if k in ("ReturnStmt", "GotoStmt", "BreakStmt", "ContinueStmt"):
            for x in c:
                self.expr(x, st)
            if k == "BreakStmt":
                if not self.brk:
                    raise Unknown("%s:%d: break outside switch/loop" % (self.file, A.line_of(n)))
                if self.brk[-1] is not None:
                    self.brk[-1].append(st.copy())
            if k == "GotoStmt":
                lab = n.get("targetLabelDeclId")
                if not lab:
                    raise Unknown("%s:%d: computed goto" % (self.file, A.line_of(n)))
                self.gotos_next[lab] = join(self.gotos_next.get(lab), st.copy())
            return None
        if k == "DeclStmt":
            for d in c:
                if d.get("kind") == "VarDecl":
                    init = [x for x in kids(d) if not x.get("kind", "").endswith("Comment") and not x.get("kind", "").endswith("Attr")]
                    if init:
                        self.expr(init[0], st)
                        self.assign(d["name"], init[0], st)
                    else:
                        st.kill(d["name"])
                elif d.get("kind") not in ("RecordDecl", "TypedefDecl", "EnumDecl", "StaticAssertDecl"):
                    raise Unknown("%s:%d: declaration kind %s" % (self.file, A.line_of(n), d.get("kind")))
            return st
        if k == "NullStmt":
            return st
        if k in ("CaseStmt", "DefaultStmt"):
            raise Unknown("%s:%d: case label nested inside a block of its switch" % (self.file, A.line_of(n)))
        if k.endswith("Expr") or k.endswith("Operator") or k.endswith("Literal"):
            self.expr(n, st)
            return st
        raise Unknown("%s:%d: statement kind %s not understood" % (self.file, A.line_of(n), k))

    def run(self, body):
        # descending iteration: pass 1 assumes nothing at labels (sound); each later pass uses the goto-site
        # states of the previous pass, which over-approximate every path into the label (still sound).
        for p in range(4):
            self.first_pass = (p == 0)
            self.record = (p == 3)
            self.gotos_next = {}
            self.brk = []
            self.stmt(body, St())
            self.gotos = self.gotos_next
        return list(self.rows.values())


SPEC_RE = re.compile(r'HAWK_T\("(\w+)"\)\s*(?:,\s*\d+\s*\}\s*,\s*\d+)?\s*,\s*\{\s*\{\s*\w+\s*,\s*\w+\s*,\s*(?:HAWK_NULL|HAWK_T\("(\w*)"\))\s*\}\s*,\s*(\w+)')


def specs_of(src):
    """[(builtin name, implementation function, argument spec string)] from the builtin tables of a file"""
    out = []
    for m in SPEC_RE.finditer(src):
        if m.group(3) != "HAWK_NULL":
            out.append((m.group(1), m.group(3), m.group(2) or ""))
    return out


class Prog:
    def __init__(self, fname, allspecs):
        self.fname = fname
        path = os.path.join(C.REPO, "lib", fname)
        ast, self.src = A.load_ast(path)
        fl = A.functions(ast, path)
        self.funcs = {f: body for f, _, body in fl}
        self.params = {f: [p.get("name", "") for p in kids(d) if p.get("kind") == "ParmVarDecl"] for f, d, _ in fl}
        self.allspecs = allspecs
        self.memo = {}
        self.rows = {}
        self.nswitch = 0
        self.nif = 0
        self.contexts = 0

    def analyse(self, name, spec, consts, depth=0):
        key = (name, spec, tuple(sorted(consts.items())))
        if key in self.memo or depth > 6:
            return
        self.memo[key] = True
        self.contexts += 1
        fn = Fn(self, name, spec, consts, depth)
        for r in fn.run(self.funcs[name]):
            k = (r["line"], r["to"], r["subj"])
            if k in self.rows:
                self.rows[k]["tags"] |= r["tags"]
                if r["via"] != self.rows[k]["via"]:
                    self.rows[k]["via"] = "+".join(sorted(set(self.rows[k]["via"].split("+")) | set(r["via"].split("+"))))
            else:
                self.rows[k] = r

    def run(self):
        roots = [(impl, sp) for _, impl, sp in self.allspecs if impl in self.funcs]
        for impl, sp in roots:
            self.analyse(impl, sp, {})
        reached = {k[0] for k in self.memo}
        for f in self.funcs:
            if f not in reached:
                self.analyse(f, None, {})
        return sorted(self.rows.values(), key=lambda r: r["line"])


def generate():
    allspecs = []
    for f in ["fnc.c", "mod-str.c", "mod-hawk.c", "std.c"]:
        allspecs += specs_of(open(os.path.join(C.REPO, "lib", f), encoding="utf-8", errors="replace").read())
    if len(allspecs) < 50:
        raise Unknown("only %d builtin table entries recognised" % len(allspecs))
    rows, stats = [], {}
    for f in FILES:
        p = Prog(f, allspecs)
        r = p.run()
        rows += r
        stats[f] = dict(functions=len(p.funcs), contexts=p.contexts, switches=p.nswitch, ifguards=p.nif, casts=len(r))
    if len(rows) < 20:
        raise Unknown("only %d casts found: the translator no longer understands the sources" % len(rows))
    L = ["/-! GENERATED by extract/fnc_dispatch.py from lib/fnc.c, mod-str.c, mod-hawk.c, misc.c, std.c, rec.c, rio.c — do not edit.",
         "One row per cast of a value pointer to a concrete value struct: the type tags under which control reaches it. -/",
         "namespace Hawk.Gen.FncDispatch", "",
         "inductive Tag where", "  | " + " | ".join(t.lower() + "_" for t in TAGS), "  deriving DecidableEq, Repr", "",
         "inductive Struct where", "  | " + " | ".join(sorted(set(STRUCTS.values()))), "  deriving DecidableEq, Repr", "",
         "structure Row where", "  file : String", "  fn : String", "  line : Nat", "  to : Struct", "  subj : String",
         "  via : String", "  tags : List Tag", "", "def rows : List Row := ["]
    body = []
    for r in rows:
        r["tags"] = sorted(r["tags"], key=TAGS.index)
        body.append("  ⟨%s, %s, %d, .%s, %s, %s, [%s]⟩" % (A.lean_str(r["file"]), A.lean_str(r["fn"]), r["line"], r["to"],
                    A.lean_str(r["subj"]), A.lean_str(r["via"]), ", ".join("." + t.lower() + "_" for t in r["tags"])))
    L.append(",\n".join(body))
    L += ["]", "", "end Hawk.Gen.FncDispatch", ""]
    return "\n".join(L), rows, stats


def main():
    txt, rows, stats = generate()
    out = os.path.join(C.LEAN, "HawkModel", "Gen", "FncDispatch.lean")
    ch = C.write_if_changed(out, txt)
    print("fnc_dispatch: %d casts (%s) -> %s%s" % (len(rows), stats, out, " (changed)" if ch else ""))
    return rows, stats


if __name__ == "__main__":
    rows, stats = main()
    if "-v" in sys.argv:
        for r in rows:
            print("%-11s %-28s %5d %-4s %-32s %-14s %s" % (r["file"], r["fn"], r["line"], r["to"], r["subj"][:32], r["via"], ",".join(r["tags"]) if len(r["tags"]) < 12 else "ALL"))
