"""Translator for C15: lib/utf8.c `utf8_table[]`  ->  lean/HawkModel/Gen/Utf8Table.lean

The initializer is taken from the *preprocessed* translation unit (`gcc -E -P` with the
same -D/-f flags the checks compile hawk with), so the `#if defined(RETAIN_RFC2279)`
alternative that is really compiled is the one that is translated.  Besides the rows the
width of `hawk_uch_t` (compiled and measured with the same flags) and HAWK_BCSIZE_MAX are emitted.

Fails closed (raises TranslateError) when
  * the struct `__utf8_t` does not have exactly the fields lower, upper, fbyte, mask, fmask, length
    in this order,
  * the initializer is not a flat list of 6-tuples of integer literals,
  * a row is not sane (length outside 1..HAWK_BCSIZE_MAX, byte fields > 0xFF, lower > upper),
  * the loops of hawk_uc_to_utf8/hawk_utf8_to_uc no longer contain the constants the model
    hard-codes (0x3F, 0x80, 0xC0, shift by 6).
The generated file is written only if its content changed (so lake does not rebuild needlessly).
"""
import os, re, subprocess, sys, tempfile

HERE = os.path.dirname(os.path.abspath(__file__))
sys.path.insert(0, os.path.dirname(HERE))
from vlib import common as C

OUT = os.path.join(C.LEAN, "HawkModel", "Gen", "Utf8Table.lean")
FIELDS = ["lower", "upper", "fbyte", "mask", "fmask", "length"]


class TranslateError(Exception):
    pass


def _cpp_flags():
    return [f for f in C.CDEFS if f.startswith("-D") or f.startswith("-f")] + ["-I" + C.REPO + "/lib"]


def preprocess(path):
    p = subprocess.run(["gcc", "-E", "-P"] + _cpp_flags() + [path], stdout=subprocess.PIPE, stderr=subprocess.PIPE)
    if p.returncode != 0:
        raise TranslateError("gcc -E failed on %s: %s" % (path, p.stderr.decode(errors="replace")[-800:]))
    return p.stdout.decode(errors="replace")


def _int(tok):
    t = tok.strip()
    m = re.fullmatch(r"(0[xX][0-9a-fA-F]+|\d+)([uUlL]*)", t)
    if not m:
        raise TranslateError("not an integer literal in utf8_table: %r" % tok)
    return int(m.group(1), 0)


def parse_table(pp):
    # struct shape
    m = re.search(r"struct\s+__utf8_t\s*\{(.*?)\}\s*;", pp, re.S)
    if not m:
        raise TranslateError("struct __utf8_t not found")
    names = re.findall(r"([A-Za-z_]\w*)\s*;", m.group(1))
    if names != FIELDS:
        raise TranslateError("struct __utf8_t fields are %r, expected %r" % (names, FIELDS))
    m = re.search(r"static\s+__utf8_t\s+utf8_table\s*\[\s*\]\s*=\s*\{(.*?)\}\s*;", pp, re.S)
    if not m:
        raise TranslateError("utf8_table[] initializer not found")
    body = m.group(1)
    rows = []
    pos = 0
    for rm in re.finditer(r"\{([^{}]*)\}", body):
        between = body[pos:rm.start()].strip()
        if between not in ("", ","):
            raise TranslateError("unexpected text between rows: %r" % between)
        pos = rm.end()
        toks = rm.group(1).split(",")
        if len(toks) != 6:
            raise TranslateError("row does not have 6 fields: %r" % rm.group(0))
        rows.append(tuple(_int(t) for t in toks))
    if body[pos:].strip() not in ("", ","):
        raise TranslateError("trailing text in initializer: %r" % body[pos:])
    if not rows:
        raise TranslateError("empty utf8_table")
    return rows


def check_loops(pp):
    """the model hard-codes the continuation-byte constants; make sure the C still uses them"""
    m = re.search(r"hawk_oow_t\s+hawk_uc_to_utf8\s*\([^)]*\)\s*\{.*?\n\}", pp, re.S)
    if not m:
        raise TranslateError("hawk_uc_to_utf8 not found")
    enc = re.sub(r"\s+", "", m.group(0))
    for need in ["get_utf8_slot(uc)", "utf8&&cur->length<=size", "while(index>1)", "utf8[--index]=(uc&0x3F)|0x80;", "uc>>=6;",
                 "utf8[0]=uc|cur->fbyte;", "return(hawk_oow_t)cur->length;"]:
        if need not in enc:
            raise TranslateError("hawk_uc_to_utf8 no longer contains %r" % need)
    m = re.search(r"hawk_oow_t\s+hawk_utf8_to_uc\s*\([^)]*\)\s*\{.*?\n\}", pp, re.S)
    if not m:
        raise TranslateError("hawk_utf8_to_uc not found")
    dec = re.sub(r"\s+", "", m.group(0))
    for need in ["if((utf8[0]&cur->mask)==cur->fbyte)", "if(size>=cur->length)", "w=utf8[0]&cur->fmask;",
                 "for(i=1;i<cur->length;i++)", "if((utf8[i]&0xC0)!=0x80)return0;", "w=(w<<6)|(utf8[i]&0x3F);", "*uc=w;",
                 "return(hawk_oow_t)cur->length;"]:
        if need not in dec:
            raise TranslateError("hawk_utf8_to_uc no longer contains %r" % need)
    m = re.search(r"get_utf8_slot\s*\(hawk_uch_t\s+uc\)\s*\{.*?\n\}", pp, re.S)
    if not m or "if(uc>=cur->lower&&uc<=cur->upper)returncur;" not in re.sub(r"\s+", "", m.group(0)):
        raise TranslateError("get_utf8_slot no longer has the range test the model transcribes")


def measure_types():
    """sizeof(hawk_uch_t)*8 and HAWK_BCSIZE_MAX with the flags of the checked build"""
    src = ('#include <hawk-cmn.h>\n#include <stdio.h>\n'
           'int main(void){unsigned short x=1;printf("%d %d %d %d\\n",(int)(sizeof(hawk_uch_t)*8),(int)HAWK_BCSIZE_MAX,(int)(((hawk_uch_t)-1)>0),(int)*(unsigned char*)&x);return 0;}\n')
    with tempfile.TemporaryDirectory() as d:
        c = os.path.join(d, "m.c")
        open(c, "w").write(src)
        p = subprocess.run(["gcc"] + _cpp_flags() + ["-w", c, "-o", os.path.join(d, "m")], stdout=subprocess.PIPE, stderr=subprocess.PIPE)
        if p.returncode != 0:
            raise TranslateError("cannot compile type probe: " + p.stderr.decode(errors="replace")[-500:])
        out = subprocess.run([os.path.join(d, "m")], stdout=subprocess.PIPE).stdout.decode().split()
    bits, bcmax, unsigned_ = int(out[0]), int(out[1]), int(out[2])
    if len(out) < 4 or int(out[3]) != 1:
        raise TranslateError("the host is not little endian; the utf16 model (HawkModel/Utf8.lean ucToUtf16/utf16ToUc) stores code units low byte first")
    if not unsigned_:
        raise TranslateError("hawk_uch_t is a signed type here; the model assumes an unsigned one")
    if bits not in (16, 32):
        raise TranslateError("hawk_uch_t has %d bits" % bits)
    return bits, bcmax


def render(rows, bits, bcmax):
    for r in rows:
        lower, upper, fbyte, mask, fmask, length = r
        if not (1 <= length <= bcmax):
            raise TranslateError("row %r: length outside 1..HAWK_BCSIZE_MAX(%d)" % (r, bcmax))
        if max(fbyte, mask, fmask) > 0xFF or lower > upper:
            raise TranslateError("row %r is not sane" % (r,))
    lines = [
        "/- GENERATED by extract/utf8_table.py from lib/utf8.c (preprocessed with the flags of the checked build).",
        "   Do not edit: regenerated on every `./check C15`. -/",
        "namespace Hawk.Gen",
        "",
        "/-- one row of `static __utf8_t utf8_table[]` -/",
        "structure Utf8Row where",
        "  lower : Nat",
        "  upper : Nat",
        "  fbyte : Nat",
        "  mask : Nat",
        "  fmask : Nat",
        "  length : Nat",
        "deriving Repr, DecidableEq",
        "",
        "def utf8Table : List Utf8Row := [",
    ]
    for i, r in enumerate(rows):
        lines.append("  ⟨0x%X, 0x%X, 0x%02X, 0x%02X, 0x%02X, %d⟩%s" % (r + ("," if i + 1 < len(rows) else "",)))
    lines += [
        "]",
        "",
        "/-- `sizeof(hawk_uch_t) * 8` of the checked build (-fshort-wchar) -/",
        "def uchBits : Nat := %d" % bits,
        "",
        "/-- HAWK_BCSIZE_MAX -/",
        "def bcsizeMax : Nat := %d" % bcmax,
        "",
        "end Hawk.Gen",
        "",
    ]
    return "\n".join(lines)


def generate(out=OUT):
    pp = preprocess(os.path.join(C.REPO, "lib", "utf8.c"))
    rows = parse_table(pp)
    check_loops(pp)
    bits, bcmax = measure_types()
    txt = render(rows, bits, bcmax)
    changed = C.write_if_changed(out, txt)
    return dict(rows=rows, uch_bits=bits, bcsize_max=bcmax, changed=changed, path=out)


if __name__ == "__main__":
    try:
        r = generate()
    except TranslateError as e:
        print("TRANSLATE-ERROR:", e)
        sys.exit(1)
    print("rows=%d uch_bits=%d bcsize_max=%d changed=%s -> %s" % (len(r["rows"]), r["uch_bits"], r["bcsize_max"], r["changed"], r["path"]))
    for row in r["rows"]:
        print("  lower=0x%X upper=0x%X fbyte=0x%02X mask=0x%02X fmask=0x%02X length=%d" % row)
