#!/usr/bin/env python3
"""C01 translator: every `hawk_rtx_getarg(rtx, I)` of the builtin / module functions with the number of arguments that
is known to be present when control reaches it.

hawk_rtx_getarg is an unchecked read `rtx->stack[base + 4 + I]`: an index at or above the actual argument count reads
a stack cell that does not belong to the call.  Sources of the guarantee:
  spec   the argument spec of the function table entry that registers the C function (fnc.c sysfnctab, mod-*.c fnctab:
         `{ {min, max, spec}, fn, ...}`): parse.c / run.c refuse a call with fewer than `min` arguments.  One C function
         may be registered several times (minimum of the mins); a helper that is not registered inherits the minimum over
         all registered functions that reach it by direct calls.  A function that uses getarg and has no registered
         caller raises (fail closed).
  path   facts dominating the site (c01_paths.visit) that compare the actual count (`hawk_rtx_getnargs(rtx)` or a local
         that is assigned from nothing else) with  K  or  K + x :  nargs >= K+x, nargs > K+x, K+x < nargs, ...
An index is  K  or  K + x  (x a local, e.g. the loop variable of `for (i = 0; i < nargs; i++)`, or a parameter such as
support_start_index); the fact must be about the same x.  A comparison used as an index (`getarg(rtx, (nargs >= 2))`)
gives two rows (0, and 1 under the comparison).
Row: file, fn, line, text, idx K, sym x, specMin, pathMin (largest P with a dominating fact nargs >= P + x).
Output: lean/HawkModel/Gen/ArgSites.lean; `arg_index_below_arity` (Props/C01.lean) demands idx < guaranteed on every row.
"""
import os, re, sys, glob
from concurrent.futures import ProcessPoolExecutor
HERE = os.path.dirname(os.path.abspath(__file__))
sys.path.insert(0, HERE)
import c01_clang as A  # noqa: E402
from c01_clang import kids, strip, unparse, Unknown, C  # noqa: E402
import c01_paths as P  # noqa: E402

ENTRY = re.compile(r'HAWK_T\("(\w+)"\)\s*(?:,\s*\d+\s*\}\s*,\s*\d+)?\s*,\s*\{\s*\{\s*(\w+)\s*,\s*(\w+)\s*,\s*(?:HAWK_NULL|HAWK_T\("(\w*)"\))\s*\}\s*,\s*(\w+)')
TABLE = re.compile(r'static\s+(?:hawk_fnc_t|hawk_mod_fnc_tab_t)\s+(\w+)\s*\[\s*\]\s*=\s*\{(.*?)\n\};', re.S)
BIG = 1000000
# mod-sys.c (sys::pack walks its arguments with a running index checked by a macro) and the other modules are outside the anchors
SCOPE = ["fnc.c", "mod-str.c", "mod-hawk.c", "mod-math.c"]


def spec_tables(files):
    ents = []
    for path in files:
        src = open(path, encoding="utf-8", errors="replace").read()
        src_nc = re.sub(r"/\*.*?\*/", "", src, flags=re.S)
        for tm in TABLE.finditer(src_nc):
            block = tm.group(2)
            got = ENTRY.findall(block)
            nrows = len(re.findall(r"^\s*\{\s*\{?\s*HAWK_T\(", block, re.M))
            if nrows != len(got) or not got:
                raise Unknown("%s: table %s has %d entries, %d understood" % (os.path.basename(path), tm.group(1), nrows, len(got)))
            for name, mn, mx, spec, fn in got:
                def num(x):
                    if x.isdigit():
                        return int(x)
                    if x == "A_MAX":
                        return BIG
                    raise Unknown("%s: table %s entry %s: argument count %s not understood" % (os.path.basename(path), tm.group(1), name, x))
                mn, mx = num(mn), num(mx)
                if mn > mx:
                    continue        # "min greater than max: the specifier names the module where the function lives" (fnc.c)
                ents.append(dict(file=os.path.basename(path), name=name, fn=fn, min=mn, max=mx, spec=spec))
    return ents


def norm(t):
    """K | (K+x) | (x+K) | x  ->  (K, x)"""
    t = re.sub(r"^\((?:hawk_\w+_t|int|unsignedint|long)\)", "", t)
    if re.fullmatch(r"\d+", t):
        return int(t), ""
    m = re.fullmatch(r"\((\d+)\+(\w+)\)", t) or None
    if m:
        return int(m.group(1)), m.group(2)
    m = re.fullmatch(r"\((\w+)\+(\d+)\)", t)
    if m and not m.group(1).isdigit():
        return int(m.group(2)), m.group(1)
    if re.fullmatch(r"[A-Za-z_]\w*", t):
        return 0, t
    return None


def nargs_bound(fact, nvars):
    """fact text -> (P, x) meaning nargs >= P + x, or None"""
    m = re.fullmatch(r"\((\w+|hawk_rtx_getnargs\(rtx\))!=0\)", fact)     # the count is unsigned (hawk_oow_t)
    if m and (m.group(1) in nvars or m.group(1) == "hawk_rtx_getnargs(rtx)"):
        return 1, ""
    m = re.fullmatch(r"\((.+?)(>=|<=|==|>|<)(.+)\)", fact)
    if not m:
        return None
    l, op, r = m.groups()
    isn = lambda s: s in nvars or s == "hawk_rtx_getnargs(rtx)"
    if isn(l) and op in (">=", ">", "=="):
        q = norm(r)
        if q:
            return q[0] + (1 if op == ">" else 0), q[1]
    if isn(r) and op in ("<=", "<", "=="):
        q = norm(l)
        if q:
            return q[0] + (1 if op == "<" else 0), q[1]
    return None


def scan(path):
    f = os.path.basename(path)
    ast, src = A.load_ast(path)
    funs = {}
    for name, decl, body in A.functions(ast, path):
        calls, sites, nvars, bad = set(), [], set(), []

        def pre(x, d):
            k, c = x.get("kind"), kids(x)
            if k == "VarDecl" and c and P.callee(c[-1]) == "hawk_rtx_getnargs":
                nvars.add(x["name"])
            if k == "BinaryOperator" and x.get("opcode") == "=" and P.callee(c[1]) == "hawk_rtx_getnargs" and strip(c[0]).get("kind") == "DeclRefExpr":
                nvars.add(strip(c[0])["referencedDecl"]["name"])
        A.walk(body, pre)

        def chk(x, d):
            k, c = x.get("kind"), kids(x)
            if k in ("BinaryOperator", "CompoundAssignOperator") and (x.get("opcode") == "=" or k == "CompoundAssignOperator"):
                l = strip(c[0])
                if l.get("kind") == "DeclRefExpr" and l["referencedDecl"]["name"] in nvars and P.callee(c[1]) != "hawk_rtx_getnargs":
                    bad.append("%s:%d: the argument-count local %s is assigned something else" % (f, A.line_of(x), l["referencedDecl"]["name"]))
            if k == "UnaryOperator" and x.get("opcode") in ("++", "--", "&"):
                l = strip(c[0])
                if l.get("kind") == "DeclRefExpr" and l["referencedDecl"]["name"] in nvars:
                    bad.append("%s:%d: the argument-count local %s is modified" % (f, A.line_of(x), l["referencedDecl"]["name"]))
        A.walk(body, chk)
        if bad:
            raise Unknown(bad[0])

        def cb(x, facts):
            if x.get("kind") != "CallExpr":
                return
            cn = P.callee(x)
            if cn:
                calls.add(cn)
            if cn != "hawk_rtx_getarg":
                return
            args = kids(x)[1:]
            if len(args) != 2 or unparse(args[0]) != "rtx":
                raise Unknown("%s:%d: hawk_rtx_getarg with unexpected arguments" % (f, A.line_of(x)))
            it = unparse(P.uncast(args[1]))
            bounds = [b for b in (nargs_bound(ft, nvars) for ft in facts) if b]
            q = norm(it)
            if q is not None:
                pm = max([b[0] for b in bounds if b[1] == q[1]] + [0])
                sites.append(dict(file=f, fn=name, line=A.line_of(x), text=it, idx=q[0], sym=q[1], pathMin=pm))
                return
            nb = nargs_bound(it, nvars)
            if nb and nb[1] == "":
                pm = max([b[0] for b in bounds if b[1] == ""] + [0])
                sites.append(dict(file=f, fn=name, line=A.line_of(x), text=it + " =0", idx=0, sym="", pathMin=pm))
                sites.append(dict(file=f, fn=name, line=A.line_of(x), text=it + " =1", idx=1, sym="", pathMin=max(pm, nb[0])))
                return
            raise Unknown("%s:%d: argument index not understood: %s" % (f, A.line_of(x), it))
        P.visit(body, cb)
        funs[name] = dict(calls=calls, sites=sites)
    return f, funs


def generate():
    lib = os.path.join(C.REPO, "lib")
    files = [os.path.join(lib, "fnc.c")] + sorted(glob.glob(os.path.join(lib, "mod-*.c")))
    ents = spec_tables(files)
    if len(ents) < 60:
        raise Unknown("only %d function table entries found" % len(ents))
    withget = [p for p in files if os.path.basename(p) in SCOPE and "hawk_rtx_getarg" in open(p, errors="replace").read()]
    if len(withget) < 3:
        raise Unknown("sources in scope missing: %r" % withget)
    with ProcessPoolExecutor(3) as ex:
        res = list(ex.map(scan, withget))
    funs = {}
    for f, d in res:
        for k, v in d.items():
            if k in funs and (v["sites"] or funs[k]["sites"]):
                raise Unknown("function %s defined twice" % k)
            funs.setdefault(k, v)
    regmin = {}
    for e in ents:
        regmin[e["fn"]] = min(regmin.get(e["fn"], BIG), e["min"])
    # registered functions reaching each function by direct calls
    reach = {}
    for r in regmin:
        seen, todo = set(), [r]
        while todo:
            x = todo.pop()
            if x in seen or x not in funs:
                continue
            seen.add(x)
            todo += list(funs[x]["calls"])
        for x in seen:
            reach.setdefault(x, set()).add(r)
    rows = []
    for name, v in sorted(funs.items()):
        if not v["sites"]:
            continue
        if name not in reach:
            raise Unknown("%s uses hawk_rtx_getarg but no function-table entry reaches it" % name)
        sm = min(regmin[r] for r in reach[name])
        for s in v["sites"]:
            s["specMin"] = sm
            s["via"] = ",".join(sorted(reach[name]))[:60]
            rows.append(s)
    rows.sort(key=lambda s: (s["file"], s["line"], s["idx"]))
    if len(rows) < 40:
        raise Unknown("only %d hawk_rtx_getarg sites found" % len(rows))
    L = ["/-! GENERATED by extract/arg_sites.py — do not edit.  hawk_rtx_getarg index sites and the function-table argument specs. -/",
         "namespace Hawk.Gen.ArgSites", "",
         "structure Spec where", "  file : String", "  name : String", "  fn : String", "  min : Nat", "  max : Nat", "",
         "structure Row where", "  file : String", "  fn : String", "  line : Nat", "  text : String", "  idx : Nat", "  sym : String",
         "  specMin : Nat", "  pathMin : Nat", "",
         "def specs : List Spec := [",
         ",\n".join("  ⟨%s, %s, %s, %d, %d⟩" % (A.lean_str(e["file"]), A.lean_str(e["name"]), A.lean_str(e["fn"]), e["min"], e["max"]) for e in ents), "]", "",
         "def rows : List Row := [",
         ",\n".join("  ⟨%s, %s, %d, %s, %d, %s, %d, %d⟩" % (A.lean_str(s["file"]), A.lean_str(s["fn"]), s["line"], A.lean_str(s["text"]), s["idx"], A.lean_str(s["sym"]),
                                                          s["specMin"], s["pathMin"]) for s in rows), "]", "",
         "end Hawk.Gen.ArgSites", ""]
    return "\n".join(L), ents, rows


def main():
    txt, ents, rows = generate()
    out = os.path.join(C.LEAN, "HawkModel", "Gen", "ArgSites.lean")
    ch = C.write_if_changed(out, txt)
    bad = [s for s in rows if not s["idx"] < (max(s["specMin"], s["pathMin"]) if s["sym"] == "" else s["pathMin"])]
    print("arg_sites: %d table entries, %d getarg sites (%d symbolic), %d not below the guaranteed count -> %s%s" % (
        len(ents), len(rows), len([s for s in rows if s["sym"]]), len(bad), out, " (changed)" if ch else ""))
    return ents, rows, bad


if __name__ == "__main__":
    e, r, bad = main()
    if "-v" in sys.argv:
        for x in r:
            print("site", x)
    for x in bad:
        print("NOT-BELOW", x)
