#!/usr/bin/env python3
"""T (translator): a small C-subset -> Lean 4 translator for pure integer code of hawk.

usage: c2lean.py <out.lean> <spec...>        (HAWK_REPO selects the tree; default /repo)
       c2lean.py --prop C20|C19|C16|C15|C13|C11   (the spec sets of the checks, written to lean/HawkModel/Gen/CFuns*.lean)

spec  ::=  <leanName>=<file.c>:<function>[:<selector>][;opt=val]...
selector (default: the whole function body)
    rhs:<lvalue>:<k>    right-hand side of the k-th (0-based, source order) plain assignment `<lvalue> = e`
                        inside the function; <lvalue> is `x` or `p->f`
    cassign:<lvalue>:<k> value computed by the k-th compound assignment `<lvalue> op= e` (op in + - *; the old value of
                        <lvalue> is an input; a bit-field's truncation on store is NOT applied)
    cond:<k>            condition of the k-th IfStmt of the function (pre-order), as a Bool
    init:<var>[:<k>]    initialiser of the (only, or k-th) local declaration of <var>
    ret:<k>             value of the k-th `return e;` of the function (pre-order)
    stmt:<Kind>:<k>     the k-th statement of clang kind <Kind> (IfStmt, DoStmt, CompoundStmt ...) of the function
                        (pre-order); result = the variables it assigns that were declared outside of it
options
    fuel=<n>            iterations allowed to every loop of the fragment (result type becomes Option: none = fuel ran out)
    abstract=a,b        locals whose initialiser is outside the subset (tagged-pointer decoding ...) become inputs
                        of the local's declared type
    ignore=f,g          calls `f(...);` used as a statement (error reporting) are dropped
    opaquecall=f        the result of a call through the function-pointer field f (`p->style->f(...)`) is an input `call_f`
    call=cname          calls to the C function cname are translated to the Lean def generated earlier in this
                        run for the whole function cname (integer arguments only)

What comes out: one `def` per spec in namespace Hawk.Gen.C, core Lean only.
    unsigned w-bit  -> Nat, every + - * << unary- ~ followed by an explicit `% 2^w` (literal modulus)
    signed w-bit    -> Int, every + - * unary- wrapped two's-complement `(x + 2^(w-1)) % 2^w - 2^(w-1)`;
                       & | ^ of int only on provably non-negative operands (constants, widened unsigned values): computed on Nat
    integer conversions are the ImplicitCastExpr/CStyleCastExpr(IntegralCast) nodes of clang's typed AST
    constant subtrees (literals, sizeof, casts, operators, enumeration constants) are folded with C semantics at
    their AST type; values of enumeration constants and sizeof(struct ...) are evaluated by clang itself (read back
    from the bound of a probe array declared in a wrapper translation unit that #includes the file)
    if/else -> if then else; assignment -> let; return -> value; switch (all arms returning) -> if chain;
    do/while/for -> Hawk.Gen.C.doLoop / whileLoop with explicit fuel;
    `p->f` reads of integer fields -> an input `p_f`; pointer parameters otherwise dropped.
Everything else raises Unsupported naming the construct: the translator FAILS CLOSED (exit 2).

Trusted: clang-14's typed AST (types, implicit conversions, macro expansion, constant case labels), the
rules above, LP64 widths read from the AST's desugared types, sizeof(pointer) = 8.
Signed overflow, shifts >= width and division by zero are undefined in C: the generated def gives them the
wrapped / Lean-total meaning; equivalence theorems are stated on the domain where the C is defined.
"""
import json, os, re, subprocess, sys, glob

HERE = os.path.dirname(os.path.abspath(__file__))
VERIF = os.path.dirname(HERE)
CDEFS = ["-DHAVE_CONFIG_H", "-DHAWK_HAVE_CFG_H", "-DHAWK_ENABLE_STATIC_MODULE", "-DHAWK_BUILD_DEBUG",
         "-DHAWK_VERIF", "-fshort-wchar", "-w"]


class Unsupported(Exception):
    pass


# ------------------------------------------------------------------------------------------------
# clang
# ------------------------------------------------------------------------------------------------
_ast_cache = {}


def load_function(repo, relfile, fname):
    key = (repo, relfile, fname)
    if key in _ast_cache:
        return _ast_cache[key]
    src = os.path.join(repo, relfile)
    if not os.path.exists(src):
        raise Unsupported("%s: no such file" % relfile)
    gccinc = []
    for d in sorted(glob.glob("/usr/lib/gcc/x86_64-linux-gnu/*/include")):
        gccinc += ["-idirafter", d]
    cmd = ["clang-14", "-fsyntax-only", "-Xclang", "-ast-dump=json", "-Xclang", "-ast-dump-filter=" + fname] + CDEFS + \
          ["-I" + repo + "/lib", "-I" + repo + "/mod"] + gccinc + [src]
    p = subprocess.run(cmd, stdout=subprocess.PIPE, stderr=subprocess.PIPE)
    if p.returncode != 0:
        raise Unsupported("clang-14 could not parse %s: %s" % (relfile, p.stderr.decode(errors="replace")[-600:]))
    s = p.stdout.decode(errors="replace")
    dec = json.JSONDecoder()
    i, found = 0, []
    while True:
        while i < len(s) and s[i].isspace():
            i += 1
        if i >= len(s):
            break
        d, i = dec.raw_decode(s, i)
        if d.get("kind") == "FunctionDecl" and d.get("name") == fname and \
           any(c.get("kind") == "CompoundStmt" for c in d.get("inner", [])):
            found.append(d)
    if len(found) != 1:
        raise Unsupported("%s: expected exactly one definition of function %s, found %d" % (relfile, fname, len(found)))
    _ast_cache[key] = found[0]
    return found[0]


_enum_cache = {}
ENUM_OFF = 1000000


def enum_values(repo, relfile, names):
    """values of enumeration constants visible in relfile: clang evaluates `char probe[(NAME) + OFF]` in a wrapper
    translation unit that #includes the file; the array bound is read back from the declared type"""
    todo = [n for n in names if (repo, relfile, n) not in _enum_cache]
    if todo:
        import tempfile
        gccinc = []
        for d in sorted(glob.glob("/usr/lib/gcc/x86_64-linux-gnu/*/include")):
            gccinc += ["-idirafter", d]
        with tempfile.TemporaryDirectory(prefix="c2lean.", dir=os.environ.get("C2LEAN_TMP") or "/var/tmp") as d:
            w = os.path.join(d, "probe.c")
            with open(w, "w") as f:
                f.write('#include "%s"\n' % os.path.join(repo, relfile))
                for i, n in enumerate(todo):
                    f.write("char __c2lean_probe_%d[(long)(%s) + %d];\n" % (i, n, ENUM_OFF))
            cmd = ["clang-14", "-fsyntax-only", "-Xclang", "-ast-dump=json", "-Xclang", "-ast-dump-filter=__c2lean_probe_"] + CDEFS + \
                  ["-I" + repo + "/lib", "-I" + repo + "/mod"] + gccinc + [w]
            p = subprocess.run(cmd, stdout=subprocess.PIPE, stderr=subprocess.PIPE)
        if p.returncode != 0:
            raise Unsupported("could not evaluate enumeration constants %s of %s: %s" % (todo, relfile, p.stderr.decode(errors="replace")[-400:]))
        txt = p.stdout.decode(errors="replace")
        for i, n in enumerate(todo):
            m = re.search(r'"name": "__c2lean_probe_%d",.*?"qualType": "char ?\[(\d+)\]"' % i, txt, re.S)
            if not m:
                raise Unsupported("could not evaluate enumeration constant %s of %s" % (n, relfile))
            _enum_cache[(repo, relfile, n)] = int(m.group(1)) - ENUM_OFF
    return {n: _enum_cache[(repo, relfile, n)] for n in names}


# ------------------------------------------------------------------------------------------------
# types
# ------------------------------------------------------------------------------------------------
BASE = {
    "unsigned long": ("U", 64), "unsigned long long": ("U", 64), "long": ("S", 64), "long long": ("S", 64),
    "int": ("S", 32), "unsigned int": ("U", 32), "short": ("S", 16), "unsigned short": ("U", 16),
    "char": ("S", 8), "signed char": ("S", 8), "unsigned char": ("U", 8), "_Bool": ("U", 8),
}


def ctype_str(node):
    t = node.get("type", {})
    return (t.get("desugaredQualType") or t.get("qualType") or "").strip()


def parse_type(s):
    s = re.sub(r"\b(const|volatile|restrict)\b", "", s).strip()
    s = re.sub(r"\s+", " ", s)
    if s in BASE:
        return BASE[s]
    if s.startswith("enum "):
        return ("U", 32)
    return None


def itype(node):
    """integer type of an AST node or None"""
    return parse_type(ctype_str(node))


def need_itype(node, what):
    t = itype(node)
    if t is None:
        raise Unsupported("%s has non-integer type '%s'" % (what, ctype_str(node)))
    return t


def sizeof_type(s):
    s = re.sub(r"\b(const|volatile|restrict)\b", "", s).strip()
    m = re.match(r"^(.*?)\s*\[(\d+)\]$", s)
    if m:
        return int(m.group(2)) * sizeof_type(m.group(1))
    if s.endswith("*"):
        return 8
    t = parse_type(s)
    if t is None:
        raise Unsupported("sizeof of type '%s'" % s)
    return t[1] // 8


def lean_ty(t):
    return "Nat" if t[0] == "U" else "Int"


def wrap_val(v, t):
    m = 1 << t[1]
    v %= m
    if t[0] == "S" and v >= m // 2:
        v -= m
    return v


def lit(v):
    return str(v) if v >= 0 else "(%d)" % v


# ------------------------------------------------------------------------------------------------
# translation of one fragment
# ------------------------------------------------------------------------------------------------
CMP = {"<": "<", "<=": "≤", ">": ">", ">=": "≥", "==": "=", "!=": "≠"}


def strip(n):
    """through parentheses and value-preserving casts"""
    while True:
        k = n.get("kind")
        if k == "ParenExpr" or (k in ("ImplicitCastExpr", "CStyleCastExpr") and n.get("castKind") in ("LValueToRValue", "NoOp")) \
           or (k == "ConstantExpr" and "value" not in n):
            n = n["inner"][0]
        else:
            return n


def lvalue_text(n):
    n = strip(n)
    k = n.get("kind")
    if k == "DeclRefExpr":
        return n["referencedDecl"]["name"]
    if k == "MemberExpr" and n.get("isArrow"):
        b = strip(n["inner"][0])
        if b.get("kind") == "DeclRefExpr":
            return b["referencedDecl"]["name"] + "->" + n["name"]
    if k == "ArraySubscriptExpr":
        b = strip(n["inner"][0])
        if b.get("kind") == "DeclRefExpr":
            return b["referencedDecl"]["name"] + "[]"      # any element of the array: usable with rhs: only
    return None


def walk(n):
    yield n
    for c in n.get("inner", []) or []:
        if isinstance(c, dict):
            yield from walk(c)


LOOPS = ("DoStmt", "WhileStmt", "ForStmt")


class Tr:
    def __init__(self, opts, registry, where):
        self.opts = opts
        self.registry = registry
        self.where = where
        self.inputs = []        # [(leanName, type)] in order of first use
        self.input_names = set()
        self.local = {}         # C name -> type, variables declared inside the fragment (or parameters)
        self.defined = set()    # definitely assigned
        self.fixed_params = False
        self.opt = False        # result is Option (loops with fuel)
        self.nloop = 0

    def fail(self, msg):
        raise Unsupported("%s: %s" % (self.where, msg))

    # ---- variables
    def use_var(self, name, t):
        if name in self.local:
            if name not in self.defined:
                self.fail("variable '%s' may be read before it is assigned" % name)
            return name
        if name in self.input_names:
            return name
        if self.fixed_params:
            self.fail("reference to '%s', which is neither a parameter nor a local of the function" % name)
        if name not in self.input_names:
            self.input_names.add(name)
            self.inputs.append((name, t))
        return name

    def use_field(self, base, field, t):
        nm = "%s_%s" % (base, field)
        if nm in self.local:
            self.fail("name clash on %s" % nm)
        if nm not in self.input_names:
            self.input_names.add(nm)
            self.inputs.append((nm, t))
        return nm

    # ---- constant folding with C semantics
    def cval(self, n):
        k = n.get("kind")
        if k in ("IntegerLiteral", "CharacterLiteral"):
            return int(n["value"])
        if k == "ConstantExpr" and "value" in n and itype(n):
            return int(n["value"])
        if k in ("ParenExpr", "ConstantExpr"):
            return self.cval(n["inner"][0])
        if k == "DeclRefExpr" and n.get("referencedDecl", {}).get("kind") == "EnumConstantDecl":
            return self.enumvals.get(n["referencedDecl"]["name"])
        if k in ("ImplicitCastExpr", "CStyleCastExpr"):
            if n.get("castKind") in ("IntegralCast", "NoOp"):
                v = self.cval(n["inner"][0])
                t = itype(n)
                if v is None or t is None:
                    return None
                return wrap_val(v, t)
            return None
        if k == "UnaryExprOrTypeTraitExpr" and n.get("name") == "sizeof":
            if "argType" in n:
                a = n["argType"]
                ts = a.get("desugaredQualType") or a.get("qualType")
            else:
                ts = ctype_str(n["inner"][0])
            try:
                return sizeof_type(ts)
            except Unsupported:
                # struct/union: let clang lay it out (same probe as for enumeration constants)
                if not re.match(r"^(struct|union) [A-Za-z_]\w*$", ts):
                    raise
                return enum_values(self.repo, self.relfile, ["sizeof(%s)" % ts])["sizeof(%s)" % ts]
        if k == "UnaryOperator" and n.get("opcode") in ("-", "~", "+", "!"):
            v = self.cval(n["inner"][0])
            t = itype(n)
            if v is None or t is None:
                return None
            op = n["opcode"]
            return wrap_val({"-": -v, "~": ~v, "+": v, "!": int(v == 0)}[op], t)
        if k == "ConditionalOperator":
            c = self.cval(n["inner"][0])
            t = itype(n)
            if c is None or t is None:
                return None
            v = self.cval(n["inner"][1] if c != 0 else n["inner"][2])
            return None if v is None else wrap_val(v, t)
        if k == "BinaryOperator":
            op = n.get("opcode")
            a, b = self.cval(n["inner"][0]), self.cval(n["inner"][1])
            t = itype(n)
            if a is None or b is None or t is None:
                return None
            if op in ("/", "%"):
                if b == 0:
                    self.fail("constant division by zero")
                q = abs(a) // abs(b) * (1 if (a < 0) == (b < 0) else -1)
                return wrap_val(q if op == "/" else a - q * b, t)
            if op in ("<<", ">>"):
                if b < 0 or b >= t[1]:
                    self.fail("constant shift by %d at width %d is undefined" % (b, t[1]))
                return wrap_val(a << b if op == "<<" else a >> b, t)
            f = {"+": lambda: a + b, "-": lambda: a - b, "*": lambda: a * b, "&": lambda: a & b, "|": lambda: a | b,
                 "^": lambda: a ^ b, "<": lambda: int(a < b), "<=": lambda: int(a <= b), ">": lambda: int(a > b),
                 ">=": lambda: int(a >= b), "==": lambda: int(a == b), "!=": lambda: int(a != b),
                 "&&": lambda: int(bool(a) and bool(b)), "||": lambda: int(bool(a) or bool(b))}.get(op)
            if f is None:
                return None
            return wrap_val(f(), t)
        return None

    # ---- conversions
    def conv(self, txt, f, t):
        if f == t:
            return txt
        fs, fw = f
        ts, tw = t
        m = 1 << tw
        if fs == "U" and ts == "U":
            return txt if tw >= fw else "(%s %% %d)" % (txt, m)
        if fs == "S" and ts == "S":
            return txt if tw >= fw else "((%s + %d) %% %d - %d)" % (txt, m // 2, m, m // 2)
        if fs == "U" and ts == "S":
            if tw > fw:
                return "(Int.ofNat %s)" % txt
            return "((Int.ofNat %s + %d) %% %d - %d)" % (txt, m // 2, m, m // 2)
        return "(Int.toNat (%s %% %d))" % (txt, m)

    def wrap(self, txt, t):
        m = 1 << t[1]
        if t[0] == "U":
            return "(%s %% %d)" % (txt, m)
        return "((%s + %d) %% %d - %d)" % (txt, m // 2, m, m // 2)

    # ---- expressions: returns Lean text of Lean type lean_ty(itype(n))
    def expr(self, n):
        t = itype(n)
        if t is not None:
            v = self.cval(n)
            if v is not None:
                return lit(v)
        k = n.get("kind")
        if k == "ParenExpr" or (k == "ConstantExpr"):
            return self.expr(n["inner"][0])
        if k in ("ImplicitCastExpr", "CStyleCastExpr"):
            ck = n.get("castKind")
            if ck in ("LValueToRValue", "NoOp"):
                return self.expr(n["inner"][0])
            if ck == "IntegralCast":
                return self.conv(self.expr(n["inner"][0]), need_itype(n["inner"][0], "cast operand"), need_itype(n, "cast"))
            self.fail("cast of kind %s" % ck)
        if k == "DeclRefExpr":
            rd = n.get("referencedDecl", {})
            if rd.get("kind") in ("ParmVarDecl", "VarDecl"):
                return self.use_var(rd["name"], need_itype(n, "variable '%s'" % rd.get("name")))
            self.fail("reference to %s '%s' outside a constant expression" % (rd.get("kind"), rd.get("name")))
        if k == "MemberExpr":
            lv = lvalue_text(n)
            if lv is None or not n.get("isArrow"):
                self.fail("member access that is not <pointer variable>->field")
            base, field = lv.split("->")
            return self.use_field(base, field, need_itype(n, "field %s" % lv))
        if k == "ConditionalOperator":
            c, a, b = n["inner"]
            need_itype(n, "?: result")
            return "(if %s then %s else %s)" % (self.cond(c), self.expr(a), self.expr(b))
        if k == "UnaryOperator":
            op = n.get("opcode")
            t = need_itype(n, "unary " + str(op))
            if op == "+":
                return self.expr(n["inner"][0])
            if op == "-":
                a = self.expr(n["inner"][0])
                return self.wrap("(%d - %s)" % (1 << t[1], a), t) if t[0] == "U" else self.wrap("(- %s)" % a, t)
            if op == "~":
                a = self.expr(n["inner"][0])
                return "(%d - %s)" % ((1 << t[1]) - 1, a) if t[0] == "U" else "(- %s - 1)" % a
            if op == "!":
                return "(if %s then 1 else 0)" % self.cond(n)
            self.fail("unary operator %s in an expression" % op)
        if k == "BinaryOperator":
            op = n.get("opcode")
            if op in CMP or op in ("&&", "||"):
                return "(if %s then 1 else 0)" % self.cond(n)
            t = need_itype(n, "binary " + str(op))
            l, r = n["inner"]
            if op in ("<<", ">>"):
                sh = self.cval(r)
                if sh is None:
                    rt = need_itype(r, "shift amount")
                    if rt[0] != "U":
                        self.fail("shift by a non-constant signed amount")
                    sh_txt = self.expr(r)
                else:
                    if sh < 0 or sh >= t[1]:
                        self.fail("shift by %d at width %d is undefined" % (sh, t[1]))
                    sh_txt = str(sh)
                if t[0] != "U":
                    self.fail("shift of a signed value")
                a = self.expr(l)
                return self.wrap("(%s <<< %s)" % (a, sh_txt), t) if op == "<<" else "(%s >>> %s)" % (a, sh_txt)
            if need_itype(l, "operand") != t or need_itype(r, "operand") != t:
                self.fail("operands of '%s' not converted to the result type by clang" % op)
            a, b = self.expr(l), self.expr(r)
            if t[0] == "U":
                if op == "+":
                    return self.wrap("(%s + %s)" % (a, b), t)
                if op == "-":
                    return self.wrap("(%s + %d - %s)" % (a, 1 << t[1], b), t)
                if op == "*":
                    return self.wrap("(%s * %s)" % (a, b), t)
                if op in ("/", "%"):
                    return "(%s %s %s)" % (a, op, b)
                if op in ("&", "|", "^"):
                    return "(%s %s %s)" % (a, {"&": "&&&", "|": "|||", "^": "^^^"}[op], b)
            else:
                if op in ("&", "|", "^"):
                    nn = self.nat_of(n)
                    if nn is None:
                        self.fail("'%s' on signed operands that are not provably non-negative" % op)
                    return "(Int.ofNat %s)" % nn
                if op in ("+", "-", "*"):
                    return self.wrap("(%s %s %s)" % (a, op, b), t)
                if op == "/":
                    return "(Int.tdiv %s %s)" % (a, b)
                if op == "%":
                    return "(Int.tmod %s %s)" % (a, b)
            self.fail("binary operator '%s' at type %s%d" % (op, t[0], t[1]))
        if k == "CallExpr":
            callee = strip(n["inner"][0])
            while callee.get("kind") == "ImplicitCastExpr":
                callee = strip(callee["inner"][0])
            if callee.get("kind") == "MemberExpr" and callee.get("name") in self.opts.get("opaquecall", []):
                # a call through the named function-pointer field: its result is an input of the call's type
                return self.use_field("call", callee["name"], need_itype(n, "result of the opaque call"))
            nm = callee.get("referencedDecl", {}).get("name")
            if callee.get("kind") != "DeclRefExpr" or nm not in self.registry or nm not in self.opts.get("call", []):
                self.fail("call of '%s' (not listed with call=, or not translated before)" % nm)
            lean, params, ropt = self.registry[nm]
            if ropt:
                self.fail("call of '%s', whose translation has loops" % nm)
            args = n["inner"][1:]
            if len(args) != len(params):
                self.fail("call of '%s' with %d arguments; its translation has %d inputs (pointer parameters?)" % (nm, len(args), len(params)))
            need_itype(n, "call result")
            return "(%s %s)" % (lean, " ".join(self.expr(a) for a in args))
        if k == "UnaryExprOrTypeTraitExpr":
            self.fail("%s that could not be folded" % n.get("name"))
        self.fail("expression of kind %s" % k)

    def nat_of(self, n):
        """Nat text of a signed expression that is provably non-negative (a non-negative constant, a widening cast of an
        unsigned value, or & | ^ of such), else None"""
        t = itype(n)
        if t is None:
            return None
        v = self.cval(n)
        if v is not None:
            return str(v) if v >= 0 else None
        k = n.get("kind")
        if k == "ParenExpr":
            return self.nat_of(n["inner"][0])
        if k in ("ImplicitCastExpr", "CStyleCastExpr") and n.get("castKind") == "IntegralCast":
            it = itype(n["inner"][0])
            if it is not None and it[0] == "U" and (it[1] < t[1] or (t[0] == "U" and it[1] <= t[1])):
                return self.expr(n["inner"][0])
            return None
        if k == "BinaryOperator" and n.get("opcode") in ("&", "|", "^") and t[0] == "S":
            a, b = self.nat_of(n["inner"][0]), self.nat_of(n["inner"][1])
            if a is None or b is None:
                return None
            return "(%s %s %s)" % (a, {"&": "&&&", "|": "|||", "^": "^^^"}[n["opcode"]], b)
        return None

    # ---- conditions: Lean Prop (decidable)
    def cond(self, n):
        s = strip(n)
        k = s.get("kind")
        if k == "BinaryOperator" and s.get("opcode") in CMP:
            l, r = s["inner"]
            if need_itype(l, "operand") != need_itype(r, "operand"):
                self.fail("comparison operands of different types")
            return "(%s %s %s)" % (self.expr(l), CMP[s["opcode"]], self.expr(r))
        if k == "BinaryOperator" and s.get("opcode") in ("&&", "||"):
            return "(%s %s %s)" % (self.cond(s["inner"][0]), "∧" if s["opcode"] == "&&" else "∨", self.cond(s["inner"][1]))
        if k == "UnaryOperator" and s.get("opcode") == "!":
            return "(¬ %s)" % self.cond(s["inner"][0])
        if k == "CallExpr":
            callee = strip(s["inner"][0])
            while callee.get("kind") == "ImplicitCastExpr":
                callee = strip(callee["inner"][0])
            if callee.get("referencedDecl", {}).get("name") == "__builtin_expect" and len(s["inner"]) == 3:
                return self.cond(s["inner"][1])
        if k in ("ImplicitCastExpr", "CStyleCastExpr") and s.get("castKind") == "IntegralCast":
            i = strip(s["inner"][0])
            if (i.get("kind") == "BinaryOperator" and (i.get("opcode") in CMP or i.get("opcode") in ("&&", "||"))) or \
               (i.get("kind") == "UnaryOperator" and i.get("opcode") == "!"):
                return self.cond(i)      # a 0/1 value survives every integer conversion
        need_itype(s, "condition")
        return "(%s ≠ 0)" % self.expr(s)

    # ---- statements
    def assigned(self, n, outer):
        """names (in `outer`) assigned anywhere inside statement n, in order"""
        out = []
        for x in walk(n):
            k = x.get("kind")
            nm = None
            if (k == "BinaryOperator" and x.get("opcode") == "=") or k == "CompoundAssignOperator":
                nm = lvalue_text(x["inner"][0])
            elif k == "UnaryOperator" and x.get("opcode") in ("++", "--"):
                nm = lvalue_text(x["inner"][0])
            if nm is not None and nm in outer and nm not in out:
                out.append(nm)
        return out

    def has(self, n, kinds):
        return any(x.get("kind") in kinds for x in walk(n))

    def tuple_of(self, names):
        if not names:
            return "()"
        return names[0] if len(names) == 1 else "(" + ", ".join(names) + ")"

    def proj(self, tname, names):
        """let-bindings projecting a right-nested tuple"""
        if len(names) == 1:
            return "let %s := %s;\n" % (names[0], tname)
        out = ""
        for i, nm in enumerate(names):
            path = ".2" * i + (".1" if i < len(names) - 1 else "")
            out += "let %s := %s%s;\n" % (nm, tname, path)
        return out

    def ret(self, txt):
        return "(some %s)" % txt if self.opt else txt

    def assign_stmt(self, s):
        """-> (name, rhs text) for x = e / x op= e / x++ ; None if s is not an assignment statement"""
        s = strip(s)
        k = s.get("kind")
        if k == "BinaryOperator" and s.get("opcode") == "=":
            nm = lvalue_text(s["inner"][0])
            if nm is None or "->" in nm:
                self.fail("assignment to something that is not a local variable")
            t = need_itype(s["inner"][0], "assigned variable")
            if need_itype(s["inner"][1], "assigned value") != t:
                self.fail("assigned value not converted to the variable's type")
            return nm, t, self.expr(s["inner"][1])
        if k == "CompoundAssignOperator":
            nm = lvalue_text(s["inner"][0])
            if nm is None or "->" in nm:
                self.fail("compound assignment to something that is not a local variable")
            t = need_itype(s["inner"][0], "assigned variable")
            ct = parse_type((s.get("computeResultType") or {}).get("desugaredQualType") or (s.get("computeResultType") or {}).get("qualType") or "")
            if ct is None:
                self.fail("compound assignment without an integer computation type")
            op = s["opcode"][:-1]
            a = self.conv(self.use_var(nm, t), t, ct)
            r = s["inner"][1]
            if op in ("<<", ">>"):
                sh = self.cval(r)
                if sh is None or sh < 0 or sh >= ct[1] or ct[0] != "U":
                    self.fail("compound shift needs an unsigned value and a constant in-range amount")
                v = self.wrap("(%s <<< %d)" % (a, sh), ct) if op == "<<" else "(%s >>> %d)" % (a, sh)
            else:
                if need_itype(r, "operand") != ct:
                    self.fail("compound assignment operand not converted to the computation type")
                b = self.expr(r)
                if op in ("+", "-", "*"):
                    if ct[0] == "U" and op == "-":
                        v = self.wrap("(%s + %d - %s)" % (a, 1 << ct[1], b), ct)
                    else:
                        v = self.wrap("(%s %s %s)" % (a, op, b), ct)
                elif op in ("/", "%") and ct[0] == "U":
                    v = "(%s %s %s)" % (a, op, b)
                elif op in ("&", "|", "^") and ct[0] == "U":
                    v = "(%s %s %s)" % (a, {"&": "&&&", "|": "|||", "^": "^^^"}[op], b)
                else:
                    self.fail("compound operator %s= at type %s%d" % (op, ct[0], ct[1]))
            return nm, t, self.conv(v, ct, t)
        if k == "UnaryOperator" and s.get("opcode") in ("++", "--"):
            nm = lvalue_text(s["inner"][0])
            if nm is None or "->" in nm:
                self.fail("++/-- on something that is not a local variable")
            t = need_itype(s["inner"][0], "incremented variable")
            a = self.use_var(nm, t)
            if t[1] < 32:
                self.fail("++/-- on a type narrower than int")
            if s["opcode"] == "++":
                return nm, t, self.wrap("(%s + 1)" % a, t)
            return nm, t, self.wrap("(%s + %d - 1)" % (a, 1 << t[1]), t) if t[0] == "U" else self.wrap("(%s - 1)" % a, t)
        return None

    def compound_value(self, s):
        """value computed by `lv op= e` (lv a variable or p->f, read as an input), converted to lv's type"""
        t = need_itype(s["inner"][0], "assigned lvalue")
        crt = s.get("computeResultType") or {}
        ct = parse_type(crt.get("desugaredQualType") or crt.get("qualType") or "")
        if ct is None:
            self.fail("compound assignment without an integer computation type")
        op = s["opcode"][:-1]
        r = s["inner"][1]
        if op == ">>" and t[0] == "U" and ct[0] == "S" and t[1] < ct[1]:
            sh = self.cval(r)
            if sh is None or sh < 0 or sh >= ct[1]:
                self.fail("compound shift needs a constant in-range amount")
            return self.conv("(Int.ofNat (%s >>> %d))" % (self.expr(s["inner"][0]), sh), ct, t), t
        a = self.conv(self.expr(s["inner"][0]), t, ct)
        if op not in ("+", "-", "*") or need_itype(r, "operand") != ct:
            self.fail("compound assignment %s= outside the subset for this selector" % op)
        b = self.expr(r)
        if ct[0] == "U" and op == "-":
            v = self.wrap("(%s + %d - %s)" % (a, 1 << ct[1], b), ct)
        else:
            v = self.wrap("(%s %s %s)" % (a, op, b), ct)
        return self.conv(v, ct, t), t

    def seq(self, stmts, tail):
        """Lean text for: stmts; then `tail()` when control falls off the end"""
        if not stmts:
            return tail()
        s, rest = stmts[0], stmts[1:]
        k = s.get("kind")
        if k == "CompoundStmt":
            return self.seq(list(s.get("inner", [])) + rest, tail)
        if k == "NullStmt":
            return self.seq(rest, tail)
        if k == "DeclStmt":
            out = ""
            for d in s.get("inner", []):
                if d.get("kind") != "VarDecl" or d.get("storageClass"):
                    self.fail("declaration of kind %s %s" % (d.get("kind"), d.get("storageClass", "")))
                nm = d["name"]
                if nm in self.local or nm in self.input_names:
                    self.fail("redeclaration/shadowing of '%s'" % nm)
                t = itype(d)
                if nm in self.opts.get("abstract", []):
                    if t is None:
                        self.fail("abstracted local '%s' is not an integer" % nm)
                    self.input_names.add(nm)
                    self.inputs.append((nm, t))
                    self.abstracted.append(nm)
                    continue
                if t is None:
                    self.fail("local '%s' of non-integer type '%s'" % (nm, ctype_str(d)))
                init = [c for c in d.get("inner", []) if isinstance(c, dict) and "kind" in c and not c["kind"].endswith("Attr")]
                self.local[nm] = t
                if init:
                    if need_itype(init[0], "initialiser") != t:
                        self.fail("initialiser of '%s' not converted to its type" % nm)
                    out += "let %s : %s := %s;\n" % (nm, lean_ty(t), self.expr(init[0]))
                    self.defined.add(nm)
            return out + self.seq(rest, tail)
        if k == "ReturnStmt":
            if not self.allow_return:
                self.fail("return inside a statement fragment")
            if not s.get("inner"):
                self.fail("return without a value")
            e = s["inner"][0]
            if need_itype(e, "returned value") != self.ret_type:
                self.fail("returned value not converted to the function's return type")
            return self.ret(self.expr(e))
        a = self.assign_stmt(s) if k in ("BinaryOperator", "CompoundAssignOperator", "UnaryOperator", "ParenExpr") else None
        if a is not None:
            nm, t, rhs = a
            if nm not in self.local:
                # assignment to a variable declared outside the fragment: it becomes an output (and possibly an input)
                if self.fixed_params:
                    self.fail("assignment to '%s', not a local" % nm)
                self.local[nm] = t
                self.outs_seen.append(nm) if nm not in self.outs_seen else None
            self.defined.add(nm)
            return "let %s : %s := %s;\n" % (nm, lean_ty(t), rhs) + self.seq(rest, tail)
        if k == "CallExpr":
            callee = strip(s["inner"][0])
            while callee.get("kind") == "ImplicitCastExpr":
                callee = strip(callee["inner"][0])
            nm = callee.get("referencedDecl", {}).get("name")
            if nm in self.opts.get("ignore", []):
                return self.seq(rest, tail)
            self.fail("call statement '%s' (not listed with ignore=)" % nm)
        if k == "IfStmt":
            parts = [c for c in s["inner"]]
            c, th = parts[0], parts[1]
            el = parts[2] if len(parts) > 2 else None
            ctxt = self.cond(c)
            if self.has(s, ("ReturnStmt",)):
                d0, l0 = set(self.defined), dict(self.local)
                a_ = self.seq([th] + rest, tail)
                self.defined, self.local = set(d0), dict(l0)
                b_ = self.seq(([el] if el else []) + rest, tail)
                self.defined, self.local = set(d0), dict(l0)     # both continuations are closed
                return "if %s then\n%s\nelse\n%s" % (ctxt, indent(a_), indent(b_))
            return self.branch_join(s, ctxt, th, el, rest, tail)
        if k in LOOPS:
            return self.loop(s, rest, tail)
        if k == "SwitchStmt":
            return self.switch(s, rest, tail)
        self.fail("statement of kind %s" % k)

    def outer_names(self, s):
        """variables assigned in s that exist outside s (locals seen so far, or free variables of a fragment)"""
        declared_inside = {d["name"] for x in walk(s) if x.get("kind") == "DeclStmt" for d in x.get("inner", []) if d.get("kind") == "VarDecl"}
        names = []
        for x in walk(s):
            k = x.get("kind")
            if (k == "BinaryOperator" and x.get("opcode") == "=") or k == "CompoundAssignOperator" or \
               (k == "UnaryOperator" and x.get("opcode") in ("++", "--")):
                nm = lvalue_text(x["inner"][0])
                if nm is None or "->" in nm:
                    self.fail("assignment to something that is not a local variable")
                if nm not in declared_inside and nm not in names:
                    names.append((nm))
        return names

    def pre_bind(self, names, s):
        """a variable assigned only conditionally must have a value before: locals must be defined, free variables become inputs"""
        for nm in names:
            if nm in self.local:
                if nm not in self.defined:
                    self.fail("'%s' assigned under a condition/in a loop before it has a value" % nm)
            else:
                if self.fixed_params:
                    self.fail("assignment to '%s', not a local" % nm)
                t = None
                for x in walk(s):
                    if x.get("kind") == "DeclRefExpr" and x.get("referencedDecl", {}).get("name") == nm:
                        t = need_itype(x, "variable '%s'" % nm)
                        break
                self.use_var(nm, t)
                self.local[nm] = t
                self.defined.add(nm)
                if nm not in self.outs_seen:
                    self.outs_seen.append(nm)

    def branch_join(self, s, ctxt, th, el, rest, tail):
        names = self.outer_names(s)
        if not names:
            self.fail("if statement without effect on any variable")
        self.pre_bind(names, s)
        tup = lambda: self.tuple_of(names)
        d0, l0 = set(self.defined), dict(self.local)
        a_ = self.seq([th], tup)
        self.defined, self.local = set(d0), dict(l0)
        b_ = self.seq([el] if el else [], tup)
        self.defined, self.local = set(d0), dict(l0)
        self.nloop += 1
        tn = "t%d" % self.nloop
        head = "let %s := (if %s then\n%s\nelse\n%s);\n" % (tn, ctxt, indent(a_), indent(b_))
        return head + self.proj(tn, names) + self.seq(rest, tail)

    def loop(self, s, rest, tail):
        if "fuel" not in self.opts:
            self.fail("loop without a fuel= option")
        if self.has(s, ("ReturnStmt", "BreakStmt", "ContinueStmt", "GotoStmt")):
            self.fail("return/break/continue/goto inside a loop")
        fuel = int(self.opts["fuel"][0])
        k = s["kind"]
        pre = []
        if k == "DoStmt":
            body, c = s["inner"][0], s["inner"][1]
            inc = None
        elif k == "WhileStmt":
            c, body = s["inner"][0], s["inner"][1]
            inc = None
        else:
            init, _, c, inc, body = s["inner"]
            if not c or not c.get("kind"):
                self.fail("for loop without a condition")
            if init and init.get("kind"):
                pre = [init]
            if inc and not inc.get("kind"):
                inc = None
        if pre:
            return self.seq(pre + [dict(s, kind="WhileStmt", inner=[c, dict(kind="CompoundStmt", inner=[body] + ([inc] if inc else []))])] + rest, tail)
        names = self.outer_names(s)
        if not names:
            self.fail("loop without effect on any variable")
        self.pre_bind(names, s)
        tup = self.tuple_of(names)
        pat = tup if len(names) == 1 else "(" + ", ".join(names) + ")"
        d0, l0 = set(self.defined), dict(self.local)
        self.nloop += 1
        tn = "t%d" % self.nloop
        if k == "DoStmt":
            step = self.seq([body], lambda: "(%s, decide %s)" % (tup, self.cond(c)))
            call = "doLoop %d (fun %s =>\n%s) %s" % (fuel, "s" if len(names) > 1 else names[0], indent((self.proj("s", names) if len(names) > 1 else "") + step), tup)
        else:
            ctxt = self.cond(c)
            step = self.seq([body], lambda: tup)
            bind = (lambda b: "(fun %s =>\n%s)" % ("s" if len(names) > 1 else names[0], indent((self.proj("s", names) if len(names) > 1 else "") + b)))
            call = "whileLoop %d %s %s %s" % (fuel, bind("decide %s" % ctxt), bind(step), tup)
        self.defined, self.local = set(d0), dict(l0)
        return "match %s with\n| none => none\n| some %s =>\n%s" % (call, tn, indent(self.proj(tn, names) + self.seq(rest, tail)))

    def switch(self, s, rest, tail):
        c, body = s["inner"][0], s["inner"][1]
        if body.get("kind") != "CompoundStmt":
            self.fail("switch body that is not a block")
        ct = need_itype(c, "switch operand")
        v = self.expr(c)
        groups = []      # (labels or None for default, [stmts])
        cur = None
        for ch in body.get("inner", []):
            labels = []
            x = ch
            isdef = False
            while x.get("kind") in ("CaseStmt", "DefaultStmt"):
                if x["kind"] == "CaseStmt":
                    if len(x["inner"]) != 2:
                        self.fail("case range")
                    cv = self.cval(x["inner"][0])
                    if cv is None:
                        self.fail("case label that is not a constant")
                    labels.append(wrap_val(cv, ct))
                    x = x["inner"][1]
                else:
                    isdef = True
                    x = x["inner"][0]
            if labels or isdef:
                if cur is not None and cur[2] and not self.ends_in_return(cur[2]):
                    self.fail("switch arm that falls through into the next label")
                if cur is not None and not cur[2]:
                    labels = cur[0] + labels
                    isdef = isdef or cur[1]
                    groups.pop()
                cur = (labels, isdef, [x])
                groups.append(cur)
            else:
                if cur is None:
                    self.fail("statement before the first case label")
                cur[2].append(ch)
        if not groups or not self.ends_in_return(groups[-1][2]):
            self.fail("switch whose arms do not all return")
        deflt = [g for g in groups if g[1]]
        if len(deflt) != 1:
            self.fail("switch without exactly one default arm")
        out = ""
        d0, l0 = set(self.defined), dict(self.local)
        for labels, isdef, stmts in groups:
            if isdef:
                continue
            cnd = " ∨ ".join("%s = %s" % (v, lit(x)) for x in labels)
            out += "if %s then\n%s\nelse " % (cnd, indent(self.seq(stmts, lambda: self.fail("switch arm falls off"))))
            self.defined, self.local = set(d0), dict(l0)
        out += "\n" + indent(self.seq(deflt[0][2], lambda: self.fail("default arm falls off")))
        return out

    def ends_in_return(self, stmts):
        if not stmts:
            return False
        l = stmts[-1]
        if l.get("kind") == "ReturnStmt":
            return True
        if l.get("kind") == "CompoundStmt":
            return self.ends_in_return(l.get("inner", []))
        return False


def indent(s, n=2):
    return "\n".join((" " * n + l) if l else l for l in s.split("\n"))


# ------------------------------------------------------------------------------------------------
# specs
# ------------------------------------------------------------------------------------------------
def parse_spec(spec):
    m = re.match(r"^([A-Za-z_]\w*)=([^:;]+):([A-Za-z_]\w*)(?::([^;]+))?((?:;[a-z]+=[^;]*)*)$", spec)
    if not m:
        raise Unsupported("malformed spec '%s'" % spec)
    opts = {}
    for o in filter(None, m.group(5).split(";")):
        k, v = o.split("=", 1)
        opts.setdefault(k, []).extend(x for x in v.split(",") if x)
    for k in opts:
        if k not in ("fuel", "abstract", "ignore", "call", "opaquecall"):
            raise Unsupported("unknown option '%s' in spec '%s'" % (k, spec))
    return m.group(1), m.group(2), m.group(3), m.group(4), opts


def translate(repo, spec, registry):
    lean, relfile, fname, sel, opts = parse_spec(spec)
    fn = load_function(repo, relfile, fname)
    body = [c for c in fn["inner"] if c.get("kind") == "CompoundStmt"][0]
    line = fn.get("loc", {}).get("line") or fn.get("loc", {}).get("expansionLoc", {}).get("line")
    where = "%s:%s%s" % (relfile, fname, (":" + sel) if sel else "")
    tr = Tr(opts, registry, where)
    tr.repo, tr.relfile = repo, relfile
    en = []
    for x in walk(body):
        if x.get("kind") == "DeclRefExpr" and x.get("referencedDecl", {}).get("kind") == "EnumConstantDecl" and x["referencedDecl"]["name"] not in en:
            en.append(x["referencedDecl"]["name"])
    tr.enumvals = enum_values(repo, relfile, en) if en else {}
    tr.abstracted = []
    tr.outs_seen = []
    tr.outer_assignable = set()
    tr.allow_return = False
    tr.opt = False
    kind = "function"
    if sel is None:
        tr.opt = tr.has(body, LOOPS)
        rts = re.sub(r"\(.*$", "", fn["type"].get("desugaredQualType") or fn["type"]["qualType"]).strip()
        tr.ret_type = parse_type(rts)
        if tr.ret_type is None:
            # typedef'd return type: take it from the first return statement
            for x in walk(body):
                if x.get("kind") == "ReturnStmt" and x.get("inner"):
                    tr.ret_type = itype(x["inner"][0])
                    break
        if tr.ret_type is None:
            raise Unsupported("%s: return type '%s' is not an integer type" % (where, rts))
        params = [c for c in fn["inner"] if c.get("kind") == "ParmVarDecl"]
        for p_ in params:
            t = itype(p_)
            if t is not None:
                tr.local[p_["name"]] = t
                tr.defined.add(p_["name"])
        int_params = [(p_["name"], itype(p_)) for p_ in params if itype(p_) is not None]
        tr.fixed_params = True
        tr.allow_return = True
        text = tr.seq([body], lambda: tr.fail("control reaches the end of the function without a return"))
        inputs = int_params + tr.inputs
        rty = lean_ty(tr.ret_type)
        if all(itype(p_) is not None for p_ in params) and not tr.inputs:
            registry[fname] = (lean, inputs, tr.opt)
    else:
        parts = sel.split(":")
        if parts[0] == "rhs" and len(parts) == 3:
            hits = [x for x in walk(body) if x.get("kind") == "BinaryOperator" and x.get("opcode") == "=" and lvalue_text(x["inner"][0]) == parts[1]]
            i = int(parts[2])
            if i >= len(hits):
                raise Unsupported("%s: only %d assignments to %s" % (where, len(hits), parts[1]))
            e = hits[i]["inner"][1]
            t = need_itype(hits[i]["inner"][0], "assigned lvalue")
            if need_itype(e, "assigned value") != t:
                raise Unsupported("%s: assigned value not converted to the lvalue's type" % where)
            text = tr.expr(e)
            rty = lean_ty(t)
            kind = "right-hand side of assignment #%d to %s" % (i, parts[1])
        elif parts[0] == "cassign" and len(parts) == 3:
            hits = [x for x in walk(body) if x.get("kind") == "CompoundAssignOperator" and lvalue_text(x["inner"][0]) == parts[1]]
            i = int(parts[2])
            if i >= len(hits):
                raise Unsupported("%s: only %d compound assignments to %s" % (where, len(hits), parts[1]))
            text, t = tr.compound_value(hits[i])
            rty = lean_ty(t)
            kind = "value stored by compound assignment #%d to %s" % (i, parts[1])
        elif parts[0] == "cond" and len(parts) == 2:
            hits = [x for x in walk(body) if x.get("kind") == "IfStmt"]
            i = int(parts[1])
            if i >= len(hits):
                raise Unsupported("%s: only %d if statements" % (where, len(hits)))
            text = "decide %s" % tr.cond(hits[i]["inner"][0])
            rty = "Bool"
            kind = "condition of if #%d" % i
        elif parts[0] == "init" and len(parts) in (2, 3):
            hits = [x for x in walk(body) if x.get("kind") == "VarDecl" and x.get("name") == parts[1]]
            if len(parts) == 3:
                if int(parts[2]) >= len(hits):
                    raise Unsupported("%s: only %d declarations of %s" % (where, len(hits), parts[1]))
                hits = [hits[int(parts[2])]]
            if len(hits) != 1:
                raise Unsupported("%s: %d declarations of %s" % (where, len(hits), parts[1]))
            init = [c for c in hits[0].get("inner", []) if isinstance(c, dict) and "kind" in c and not c["kind"].endswith("Attr")]
            t = need_itype(hits[0], "declared variable")
            if not init or need_itype(init[0], "initialiser") != t:
                raise Unsupported("%s: no initialiser of the variable's type" % where)
            text = tr.expr(init[0])
            rty = lean_ty(t)
            kind = "initialiser of local %s" % parts[1]
        elif parts[0] == "ret" and len(parts) == 2:
            hits = [x for x in walk(body) if x.get("kind") == "ReturnStmt" and x.get("inner")]
            i = int(parts[1])
            if i >= len(hits):
                raise Unsupported("%s: only %d return statements with a value" % (where, len(hits)))
            t = need_itype(hits[i]["inner"][0], "returned value")
            text = tr.expr(hits[i]["inner"][0])
            rty = lean_ty(t)
            kind = "value of return #%d" % i
        elif parts[0] == "stmt" and len(parts) == 3:
            hits = [x for x in walk(body) if x.get("kind") == parts[1]]
            i = int(parts[2])
            if i >= len(hits):
                raise Unsupported("%s: only %d statements of kind %s" % (where, len(hits), parts[1]))
            st = hits[i]
            tr.opt = tr.has(st, LOOPS)
            outs = tr.outer_names(st)
            if not outs:
                raise Unsupported("%s: the statement assigns no variable" % where)
            text = tr.seq([st], lambda: tr.ret(tr.tuple_of(outs)))
            tys = []
            for o in outs:
                if o not in tr.local:
                    raise Unsupported("%s: output '%s' without a type" % (where, o))
                tys.append(lean_ty(tr.local[o]))
            rty = " × ".join(tys)
            kind = "%s #%d; result = (%s)" % (parts[1], i, ", ".join(outs))
        else:
            raise Unsupported("malformed selector '%s'" % sel)
        inputs = tr.inputs
    if tr.opt:
        rty = "Option (%s)" % rty
    for a in opts.get("abstract", []):
        if a not in tr.abstracted:
            raise Unsupported("%s: abstract=%s names no local declaration" % (where, a))
    sig = " ".join("(%s : %s)" % (n, lean_ty(t)) for n, t in inputs)
    doc = "/-- %s %s `%s` (line %s). inputs: %s%s -/" % (
        relfile, kind, fname, line, ", ".join("%s:%s%d" % (n, t[0], t[1]) for n, t in inputs) or "none",
        ("; loops get fuel %s" % opts["fuel"][0]) if tr.opt else "")
    return "%s\ndef %s %s : %s :=\n%s\n" % (doc, lean, sig, rty, indent(text))


PRELUDE = """/-- `do body while (c)`: `step` runs the body and says whether to go round again; `none` = fuel ran out -/
def doLoop {σ : Type} : Nat → (σ → σ × Bool) → σ → Option σ
  | 0, _, _ => none
  | fuel + 1, step, s => if (step s).2 then doLoop fuel step (step s).1 else some (step s).1

/-- `while (c) body` -/
def whileLoop {σ : Type} : Nat → (σ → Bool) → (σ → σ) → σ → Option σ
  | 0, _, _, _ => none
  | fuel + 1, c, body, s => if c s then whileLoop fuel c body (body s) else some s
"""


def prefetch(repo, specs):
    """parse the functions of a spec set in parallel (one clang run per function; run.c takes seconds each);
    failures are left to the sequential pass, which reports them"""
    from concurrent.futures import ThreadPoolExecutor
    todo = []
    for sp in specs:
        try:
            _, relfile, fname, _, _ = parse_spec(sp)
        except Unsupported:
            continue
        if (relfile, fname) not in todo:
            todo.append((relfile, fname))

    def one(rf):
        try:
            load_function(repo, rf[0], rf[1])
        except Unsupported:
            pass
    with ThreadPoolExecutor(max_workers=4) as ex:
        list(ex.map(one, todo))


def generate(repo, specs, title="", prelude=False, imports=()):
    registry = {}
    prefetch(repo, specs)
    out = "".join("import %s\n" % i for i in imports)
    out += "/-! GENERATED by extract/c2lean.py from the checked tree. DO NOT EDIT.%s\n" % ((" " + title) if title else "")
    out += "    specs: %s -/\nnamespace Hawk.Gen.C\n\n" % " ".join(specs).replace("-/", "- /")
    if prelude:
        out += PRELUDE + "\n"
    for sp in specs:
        out += translate(repo, sp, registry) + "\n"
    out += "end Hawk.Gen.C\n"
    return out


def write_if_changed(path, content):
    old = open(path).read() if os.path.exists(path) else None
    if old != content:
        os.makedirs(os.path.dirname(path), exist_ok=True)
        with open(path, "w") as f:
            f.write(content)
        return True
    return False


GEN = os.path.join(VERIF, "lean", "HawkModel", "Gen")
SPECS = {
    "C20": ("CFunsXma.lean", False, [
        "szlog2=lib/xma.c:szlog2",
        "getxfi=lib/xma.c:getxfi;call=szlog2",
        "xmaAllocMin=lib/xma.c:hawk_xma_alloc:stmt:IfStmt:0",
        "xmaAllocRound=lib/xma.c:hawk_xma_alloc:rhs:size:1",
        "xmaAllocWrapped=lib/xma.c:hawk_xma_alloc:cond:1",
        "xmaReallocRound=lib/xma.c:_realloc_merge:rhs:size:1",
        "xmaReallocWrapped=lib/xma.c:_realloc_merge:cond:1",
        "xmaReallocMin=lib/xma.c:_realloc_merge:stmt:IfStmt:0",
        "xmaInitRound=lib/xma.c:hawk_xma_init:rhs:zonesize:0",
        "xmaInitMin=lib/xma.c:hawk_xma_init:stmt:IfStmt:1",
        "xmaInitBdec=lib/xma.c:hawk_xma_init:rhs:xma->bdec:0;call=szlog2",
        "xmaFreeNs=lib/xma.c:hawk_xma_free:init:ns",
        "xmaFreeBs=lib/xma.c:hawk_xma_free:init:bs",
        "xmaFreeBoth=lib/xma.c:hawk_xma_free:cassign:x->size:0",
        "xmaFreeNext=lib/xma.c:hawk_xma_free:cassign:blk->size:0",
        "xmaFreePrev=lib/xma.c:hawk_xma_free:cassign:x->size:1",
        "xmaTakeRem=lib/xma.c:alloc_from_freelist:rhs:rem:0",
        "xmaTakeSplit=lib/xma.c:alloc_from_freelist:cond:1",
        "xmaTakeYSize=lib/xma.c:alloc_from_freelist:rhs:y->size:0",
        "xmaGrowReq=lib/xma.c:_realloc_merge:rhs:req:0",
        "xmaGrowRem=lib/xma.c:_realloc_merge:rhs:rem:0",
        "xmaGrowYSize=lib/xma.c:_realloc_merge:rhs:y->size:0",
        "xmaShrinkRem=lib/xma.c:_realloc_merge:init:rem:1",
        "xmaShrinkYSizeMerge=lib/xma.c:_realloc_merge:rhs:y->size:1",
        "xmaShrinkYSize=lib/xma.c:_realloc_merge:rhs:y->size:2",
    ]),
    "C19": ("CFunsArr.lean", True, [
        "arrInsTooFar=lib/arr.c:hawk_arr_insert:cond:0",
        "arrInsNeedGrow=lib/arr.c:hawk_arr_insert:cond:2",
        "arrInsMinCapa=lib/arr.c:hawk_arr_insert:rhs:mincapa:0",
        "arrInsAlign64=lib/arr.c:hawk_arr_insert:rhs:capa:1",
        "arrInsBound=lib/arr.c:hawk_arr_insert:init:bound",
        "arrInsDouble=lib/arr.c:hawk_arr_insert:stmt:DoStmt:0;fuel=64",
        "arrInsHalve=lib/arr.c:hawk_arr_insert:rhs:capa:3",
        "arrInsGiveUp=lib/arr.c:hawk_arr_insert:cond:6",
        "arrSetcapaTooBig=lib/arr.c:hawk_arr_setcapa:cond:3",
        "arrHeapParent=lib/arr.c:sift_up:rhs:parent:0",
        "arrHeapBase=lib/arr.c:sift_down:rhs:base:0",
        "arrHeapLeft=lib/arr.c:sift_down:rhs:left:0",
        "arrHeapRight=lib/arr.c:sift_down:rhs:right:0",
        "arrHeapHasRight=lib/arr.c:sift_down:cond:1",
        "arrHeapPick=lib/arr.c:sift_down:rhs:child:0",
        "arrDelOut=lib/arr.c:hawk_arr_delete:cond:0",
        "arrDelClamp=lib/arr.c:hawk_arr_delete:stmt:IfStmt:1",
        "arrDelNone=lib/arr.c:hawk_arr_delete:cond:2",
        "arrUplOut=lib/arr.c:hawk_arr_uplete:cond:0",
        "arrUplClamp=lib/arr.c:hawk_arr_uplete:stmt:IfStmt:1",
    ]),
    "C16": ("CFunsHtb.lean", False, [
        "htbInitCapa=lib/htb.c:hawk_htb_init:stmt:IfStmt:0",
        "htbInitFactor=lib/htb.c:hawk_htb_init:stmt:IfStmt:1",
        "htbInitThreshold=lib/htb.c:hawk_htb_init:rhs:htb->threshold:0",
        "htbInitThresholdFloor=lib/htb.c:hawk_htb_init:cond:3",
        "htbReorgNewCapa=lib/htb.c:reorganize:rhs:new_capa:2",
        "htbReorgThreshold=lib/htb.c:reorganize:rhs:htb->threshold:1",
        "htbIdxSearch=lib/htb.c:hawk_htb_search:rhs:hc:0;opaquecall=hasher",
        "htbIdxReorg=lib/htb.c:reorganize:rhs:hc:0;opaquecall=hasher",
        "htbIdxInsert=lib/htb.c:insert:rhs:hc:0;opaquecall=hasher",
        "htbIdxInsert2=lib/htb.c:insert:rhs:hc:1;opaquecall=hasher",
        "htbIdxCbsert=lib/htb.c:hawk_htb_cbsert:rhs:hc:0;opaquecall=hasher",
        "htbIdxCbsert2=lib/htb.c:hawk_htb_cbsert:rhs:hc:1;opaquecall=hasher",
        "htbIdxDelete=lib/htb.c:hawk_htb_delete:rhs:hc:0;opaquecall=hasher",
        "htbGrowTest=lib/htb.c:insert:cond:5",
        "htbGrowTestCb=lib/htb.c:hawk_htb_cbsert:cond:4",
    ]),
    "C15": ("CFunsUtf8.lean", False, [
        "utf8EncCont=lib/utf8.c:hawk_uc_to_utf8:rhs:utf8[]:0",
        "utf8EncShift=lib/utf8.c:hawk_uc_to_utf8:cassign:uc:0",
        "utf8EncFirst=lib/utf8.c:hawk_uc_to_utf8:rhs:utf8[]:1",
    ]),
    "C13": ("CFunsStrFn.lean", False, [
        "subIdxDec=lib/fnc.c:hawk_fnc_substr:rhs:lindex:0",
        "subIdxLo=lib/fnc.c:hawk_fnc_substr:stmt:IfStmt:4",
        "subCntLo=lib/fnc.c:hawk_fnc_substr:stmt:IfStmt:3",
        "subCntDefault=lib/fnc.c:hawk_fnc_substr:rhs:lcount:1",
        "subIdxHiB=lib/fnc.c:hawk_fnc_substr:stmt:IfStmt:6",
        "subCntHiB=lib/fnc.c:hawk_fnc_substr:stmt:IfStmt:7",
        "subIdxHiU=lib/fnc.c:hawk_fnc_substr:stmt:IfStmt:10",
        "subCntHiU=lib/fnc.c:hawk_fnc_substr:stmt:IfStmt:11",
    ]),
    "C11": ("CFunsCmp.lean", False, [
        "cmpEnsureNotEqual=lib/run.c:__cmp_ensure_not_equal;ignore=hawk_rtx_seterrnum",
        "cmpIntInt=lib/run.c:__cmp_int_int;abstract=v1,v2",
        "cmpNilInt=lib/run.c:__cmp_nil_int;abstract=v",
        "cmpCharChar=lib/run.c:__cmp_char_char;abstract=v1,v2",
        "cmpBchrBchr=lib/run.c:__cmp_bchr_bchr;abstract=v1,v2",
        "cmpCharBchr=lib/run.c:__cmp_char_bchr;abstract=v1,v2",
        "cmpMirrorIsErr=lib/run.c:__cmp_int_nil:cond:0",
        "cmpMirrorNeg=lib/run.c:__cmp_int_nil:ret:1",
    ]),
}


def run_for(prop, repo=None):
    """regenerate the Gen/CFuns*.lean of one property from `repo`; returns (path, changed); raises Unsupported"""
    fname, prelude, specs = SPECS[prop]
    txt = generate(repo or os.environ.get("HAWK_REPO", "/repo"), specs, title="(%s)" % prop, prelude=prelude)
    path = os.path.join(GEN, fname)
    return path, write_if_changed(path, txt)


if __name__ == "__main__":
    if len(sys.argv) == 3 and sys.argv[1] == "--prop":
        try:
            print("%s %s" % run_for(sys.argv[2]))
        except Unsupported as e:
            sys.stderr.write("c2lean: outside the translated subset (fail closed): %s\n" % e)
            sys.exit(2)
        sys.exit(0)
    if len(sys.argv) < 3:
        sys.stderr.write(__doc__)
        sys.exit(64)
    args = sys.argv[1:]
    prelude = "--prelude" in args
    args = [a for a in args if a != "--prelude"]
    imports = [a[len("--import="):] for a in args if a.startswith("--import=")]
    args = [a for a in args if not a.startswith("--import=")]
    try:
        txt = generate(os.environ.get("HAWK_REPO", "/repo"), args[1:], prelude=prelude, imports=imports)
    except Unsupported as e:
        sys.stderr.write("c2lean: outside the translated subset (fail closed): %s\n" % e)
        sys.exit(2)
    changed = write_if_changed(args[0], txt)
    print("%s %s" % (args[0], "written" if changed else "unchanged"))
