#!/usr/bin/env python3
"""Translator for C08: extract the operator dispatch tables of the evaluator from the C sources and
write lean/HawkModel/Gen/OpTables.lean.

  lib/run-prv.h : enum order of hawk_assop_type_t / hawk_binop_type_t / hawk_unrop_type_t / hawk_incop_type_t
  lib/run.c     : binop_func[] of eval_binary (which eval_binop_* serves which HAWK_BINOP_*),
                  binop_func[] of eval_assignment (which eval_binop_* serves which HAWK_ASSOP_*),
                  the increment values chosen by eval_incpre / eval_incpst per HAWK_INCOP_*
  lib/parse.c   : assop[] of assign_to_opcode (token order -> HAWK_ASSOP_*), the TOK_*_ASSN token order,
                  the operator spelling table ops[] (for the harness), the unary token->opcode mapping of parse_unary

Fails closed: any pattern that is not found, or any count that does not add up, raises TranslateError
(the check then reports the correspondence as broken).  The output is written only if it changed.
"""
import os, re, sys


class TranslateError(Exception):
    pass


def _read(repo, rel):
    p = os.path.join(repo, rel)
    if not os.path.exists(p):
        raise TranslateError("missing source file " + p)
    return open(p, encoding="utf-8", errors="replace").read()


def _strip_comments(s):
    s = re.sub(r"/\*.*?\*/", " ", s, flags=re.S)
    s = re.sub(r"//[^\n]*", " ", s)
    return s


def _enum(src, name, prefix):
    m = re.search(r"enum\s+%s\s*\{(.*?)\}\s*;" % re.escape(name), src, re.S)
    if not m:
        raise TranslateError("enum %s not found" % name)
    body = _strip_comments(m.group(1))
    items = [x.strip() for x in body.split(",") if x.strip()]
    out = []
    for it in items:
        if "=" in it:
            raise TranslateError("enum %s has an explicit value (%s): order is no longer positional" % (name, it))
        if not it.startswith(prefix):
            raise TranslateError("enum %s: unexpected enumerator %s" % (name, it))
        out.append(it[len(prefix):])
    if not out:
        raise TranslateError("enum %s is empty" % name)
    return out


def _func_body(src, header_re):
    """text of the function whose header matches header_re (brace matching from the first '{')"""
    m = re.search(header_re, src)
    if not m:
        raise TranslateError("function not found: " + header_re)
    i = src.index("{", m.end() - 1)
    depth = 0
    j = i
    while j < len(src):
        c = src[j]
        if c == "{":
            depth += 1
        elif c == "}":
            depth -= 1
            if depth == 0:
                return src[i:j + 1]
        j += 1
    raise TranslateError("unbalanced braces after " + header_re)


def _table(body, decl_re, what):
    m = re.search(decl_re + r"\s*=\s*\{(.*?)\}\s*;", body, re.S)
    if not m:
        raise TranslateError("table not found: " + what)
    txt = _strip_comments(m.group(1))
    return [x.strip() for x in txt.split(",") if x.strip()]


def _binop_names(entries, what):
    out = []
    for e in entries:
        if e == "HAWK_NULL":
            out.append(None)
        elif e.startswith("eval_binop_") and re.fullmatch(r"\w+", e):
            out.append(e[len("eval_binop_"):])
        else:
            raise TranslateError("%s: unexpected entry %r" % (what, e))
    return out


def _inc_values(body, what):
    """[(INCOP name, int delta, float delta)] from the if/else-if chain on exp->opcode"""
    out = []
    for m in re.finditer(r"exp->opcode\s*==\s*HAWK_INCOP_(\w+)\s*\)\s*\{\s*inc_val_int\s*=\s*(-?\d+)\s*;\s*inc_val_flt\s*=\s*(-?\d+)\.0\s*;\s*\}", body):
        out.append((m.group(1), int(m.group(2)), int(m.group(3))))
    if len(out) != 2:
        raise TranslateError("%s: expected two HAWK_INCOP_* branches setting inc_val_int/inc_val_flt, found %d" % (what, len(out)))
    # the value actually used must be those variables
    for needle in ("inc_val_int", "inc_val_flt", "do_assignment"):
        if needle not in body:
            raise TranslateError("%s: %s no longer used" % (what, needle))
    return out


def extract(repo):
    prv = _read(repo, "lib/run-prv.h")
    run = _read(repo, "lib/run.c")
    parse = _read(repo, "lib/parse.c")
    t = {}
    t["assopEnum"] = _enum(prv, "hawk_assop_type_t", "HAWK_ASSOP_")
    t["binopEnum"] = _enum(prv, "hawk_binop_type_t", "HAWK_BINOP_")
    t["unropEnum"] = _enum(prv, "hawk_unrop_type_t", "HAWK_UNROP_")
    t["incopEnum"] = _enum(prv, "hawk_incop_type_t", "HAWK_INCOP_")

    eb = _func_body(run, r"static\s+hawk_val_t\*\s+eval_binary\s*\([^)]*\)\s*\{")
    t["evalBinaryTable"] = _binop_names(_table(eb, r"static\s+binop_func_t\s+binop_func\s*\[\s*\]", "eval_binary binop_func[]"), "eval_binary binop_func[]")
    if len(t["evalBinaryTable"]) != len(t["binopEnum"]):
        raise TranslateError("eval_binary binop_func[] has %d entries, hawk_binop_type_t has %d" % (len(t["evalBinaryTable"]), len(t["binopEnum"])))
    if not re.search(r"binop_func\s*\[\s*exp->opcode\s*\]\s*\(\s*rtx\s*,\s*left\s*,\s*right\s*\)", eb):
        raise TranslateError("eval_binary no longer dispatches binop_func[exp->opcode](rtx, left, right)")
    # the opcodes handled before the table (short-circuit / node-level evaluators)
    special = re.findall(r"case\s+HAWK_BINOP_(\w+)\s*:\s*(?:/\*.*?\*/\s*)?res\s*=\s*eval_binop_(\w+)\s*\(\s*rtx\s*,\s*exp->left\s*,\s*exp->right\s*\)", eb, re.S)
    t["evalBinarySpecial"] = sorted(special)
    nulls = sorted(n for n, f in zip(t["binopEnum"], t["evalBinaryTable"]) if f is None)
    if sorted(n for n, _ in special) != nulls:
        raise TranslateError("eval_binary: opcodes with a NULL table entry %s differ from the specially handled ones %s" % (nulls, sorted(n for n, _ in special)))

    ea = _func_body(run, r"static\s+hawk_val_t\*\s+eval_assignment\s*\([^)]*\)\s*\{")
    t["evalAssignTable"] = _binop_names(_table(ea, r"static\s+binop_func_t\s+binop_func\s*\[\s*\]", "eval_assignment binop_func[]"), "eval_assignment binop_func[]")
    if len(t["evalAssignTable"]) != len(t["assopEnum"]):
        raise TranslateError("eval_assignment binop_func[] has %d entries, hawk_assop_type_t has %d" % (len(t["evalAssignTable"]), len(t["assopEnum"])))
    m = re.search(r"binop_func\s*\[\s*ass->opcode\s*\]\s*\(\s*rtx\s*,\s*(\w+)\s*,\s*(\w+)\s*\)", ea)
    if not m:
        raise TranslateError("eval_assignment no longer dispatches binop_func[ass->opcode](rtx, ., .)")
    # operand order: (current value of the target, value of the right-hand side)
    lhs_var, rhs_var = m.group(1), m.group(2)
    if not re.search(r"%s\s*=\s*eval_expression\s*\(\s*rtx\s*,\s*ass->left\s*\)" % lhs_var, ea) or \
       not re.search(r"%s\s*=\s*eval_expression\s*\(\s*rtx\s*,\s*ass->right\s*\)" % rhs_var, ea):
        raise TranslateError("eval_assignment: operand order of the compound operator changed")
    # evaluation order: right-hand side first, then the target
    p_r = re.search(r"=\s*eval_expression\s*\(\s*rtx\s*,\s*ass->right\s*\)", ea).start()
    p_l = re.search(r"=\s*eval_expression\s*\(\s*rtx\s*,\s*ass->left\s*\)", ea).start()
    t["assignRhsFirst"] = p_r < p_l
    if "do_assignment(rtx, ass->left, val)" not in re.sub(r"\s+", " ", ea).replace("( ", "(").replace(" (", "("):
        raise TranslateError("eval_assignment no longer ends in do_assignment(rtx, ass->left, val)")

    t["incpre"] = _inc_values(_func_body(run, r"static\s+hawk_val_t\*\s+eval_incpre\s*\([^)]*\)\s*\{"), "eval_incpre")
    t["incpst"] = _inc_values(_func_body(run, r"static\s+hawk_val_t\*\s+eval_incpst\s*\([^)]*\)\s*\{"), "eval_incpst")

    t.update(extract_parse(repo))
    return t


def extract_parse(repo):
    """the parser-side tables only (operator spellings, token->opcode maps); also used by the harness when the
    evaluator-side extraction fails closed"""
    parse = _read(repo, "lib/parse.c")
    prv = _read(repo, "lib/run-prv.h")
    t = {}
    t["unropEnum"] = _enum(prv, "hawk_unrop_type_t", "HAWK_UNROP_")
    ao = _func_body(parse, r"static\s+int\s+assign_to_opcode\s*\([^)]*\)\s*\{")
    ent = _table(ao, r"static\s+int\s+assop\s*\[\s*\]", "assign_to_opcode assop[]")
    for e in ent:
        if not e.startswith("HAWK_ASSOP_"):
            raise TranslateError("assign_to_opcode: unexpected entry " + e)
    t["parseAssopTable"] = [e[len("HAWK_ASSOP_"):] for e in ent]
    if not re.search(r"assop\s*\[\s*hawk->tok\.type\s*-\s*TOK_ASSN\s*\]", ao):
        raise TranslateError("assign_to_opcode no longer indexes assop[] by tok.type - TOK_ASSN")
    # token order TOK_ASSN .. TOK_BOR_ASSN
    m = re.search(r"\bTOK_ASSN\s*,(.*?)TOK_BOR_ASSN\s*,", parse, re.S)
    if not m:
        raise TranslateError("TOK_ASSN..TOK_BOR_ASSN token run not found")
    toks = ["TOK_ASSN"] + [x.strip() for x in _strip_comments(m.group(1)).split(",") if x.strip()] + ["TOK_BOR_ASSN"]
    t["assnTokens"] = [x[len("TOK_"):-len("_ASSN")] if x != "TOK_ASSN" else "NONE" for x in toks]
    if len(t["assnTokens"]) != len(t["parseAssopTable"]):
        raise TranslateError("assop[] has %d entries for %d assignment tokens" % (len(t["parseAssopTable"]), len(t["assnTokens"])))

    # unary token -> opcode in parse_unary
    pu = _func_body(parse, r"static\s+hawk_nde_t\*\s+parse_unary\s*\([^)]*\)\s*\{")
    un = re.findall(r"MATCH\s*\(\s*hawk\s*,\s*TOK_(\w+)\s*\)\s*\)\s*\?\s*HAWK_UNROP_(\w+)", pu)
    if len(un) != len(t["unropEnum"]):
        raise TranslateError("parse_unary: %d unary token mappings for %d unary opcodes" % (len(un), len(t["unropEnum"])))
    t["unaryTokens"] = un

    # operator spellings (first spelling listed for a token wins)
    m = re.search(r"static\s+struct\s+ops_t\s+ops\s*\[\s*\]\s*=\s*\{(.*?)\n\s*\}\s*;", parse, re.S)
    if not m:
        raise TranslateError("operator spelling table ops[] not found")
    spell = {}
    for mm in re.finditer(r'\{\s*HAWK_T\("((?:[^"\\]|\\.)*)"\)\s*,\s*(\d+)\s*,\s*TOK_(\w+)\s*,', m.group(1)):
        s = mm.group(1).replace("\\\\", "\\")
        spell.setdefault(mm.group(3), s)
    t["spelling"] = spell
    t.update(extract_storage(repo))
    # binop token maps: { TOK_X, HAWK_BINOP_Y }
    bm = re.findall(r"\{\s*TOK_(\w+)\s*,\s*HAWK_BINOP_(\w+)\s*\}", _strip_comments(parse))
    t["binopTokens"] = sorted(set(bm))
    return t


def _norm(e):
    return re.sub(r"\s+", "", e).replace("nde->", "").replace("block->", "")


def extract_storage(repo):
    """the storage layer below the operators:
      lib/hawk.h + lib/run.c : eval_expression0's __evaluator[] against hawk_nde_type_t (node type -> evaluator)
      lib/run.c              : do_assignment's switch (variable node type -> assigner)
      lib/run.c              : run_block0: the two conditions and the bounds of the loop that resets a nested block's locals
      lib/parse.c            : parse_block: what it stores in org_nlcls / outer_nlcls / nlcls"""
    hh = _read(repo, "lib/hawk.h")
    run = _read(repo, "lib/run.c")
    parse = _read(repo, "lib/parse.c")
    t = {}
    nde = _enum(hh, "hawk_nde_type_t", "HAWK_NDE_")
    if "GRP" not in nde:
        raise TranslateError("hawk_nde_type_t has no HAWK_NDE_GRP (first expression node)")
    exprs = nde[nde.index("GRP"):]
    ev = _func_body(run, r"static\s+hawk_val_t\*\s+eval_expression0\s*\([^)]*\)\s*\{")
    tab = _table(ev, r"static\s+eval_expr_t\s+__evaluator\s*\[\s*\]", "eval_expression0 __evaluator[]")
    for e in tab:
        if not re.fullmatch(r"eval_\w+", e):
            raise TranslateError("__evaluator[]: unexpected entry %r" % e)
    if len(tab) != len(exprs):
        raise TranslateError("__evaluator[] has %d entries, hawk_nde_type_t has %d expression nodes from HAWK_NDE_GRP" % (len(tab), len(exprs)))
    if not re.search(r"__evaluator\s*\[\s*nde->type\s*-\s*HAWK_NDE_GRP\s*\]\s*\(\s*rtx\s*,\s*nde\s*\)", ev):
        raise TranslateError("eval_expression0 no longer dispatches __evaluator[nde->type - HAWK_NDE_GRP](rtx, nde)")
    t["ndeEvaluator"] = list(zip(exprs, tab))

    da = _strip_comments(_func_body(run, r"static\s+hawk_val_t\*\s+do_assignment\s*\([^)]*\)\s*\{"))
    if not re.search(r"switch\s*\(\s*var->type\s*\)", da):
        raise TranslateError("do_assignment no longer switches on var->type")
    pend, out = [], []
    for m in re.finditer(r"case\s+HAWK_NDE_(\w+)\s*:|ret\s*=\s*(do_assignment_\w+)\s*\(|default\s*:", da):
        if m.group(1):
            pend.append(m.group(1))
        elif m.group(2):
            if not pend:
                raise TranslateError("do_assignment: call of %s outside a case" % m.group(2))
            out += [(l, m.group(2)) for l in pend]
            pend = []
        else:
            if pend:
                raise TranslateError("do_assignment: cases %s fall into default" % pend)
    if pend or not out:
        raise TranslateError("do_assignment: cannot read the switch (pending %s)" % pend)
    t["assignDispatch"] = out

    rb = re.sub(r"\s+", " ", _strip_comments(_func_body(run, r"static\s+HAWK_INLINE\s+int\s+run_block0\s*\([^)]*\)\s*\{")))
    conds = re.findall(r"(?:else )?if \((nde->nlcls [^()]*)\) \{", rb)
    if len(conds) < 3:
        raise TranslateError("run_block0: expected the conditions on nde->nlcls (push, reset, pop), found %s" % conds)
    m = re.search(r"for \( ?(\w+) = ([^;]+); ?\1 < ([^;]+); ?\1\+\+ ?\) \{ hawk_rtx_refdownval ?\( ?rtx, HAWK_RTX_STACK_LCL ?\( ?rtx, ?\1 ?\) ?\); "
                  r"HAWK_RTX_STACK_LCL ?\( ?rtx, ?\1 ?\) = hawk_val_nil; \}", rb)
    if not m:
        raise TranslateError("run_block0: the loop that sets the locals of a nested block to nil was not found")
    lo, hi = m.group(2).strip(), m.group(3).strip()
    if re.fullmatch(r"\w+", hi):
        mm = re.findall(r"\b%s = ([^;]+);" % hi, rb[:m.start()])
        if len(mm) != 1:
            raise TranslateError("run_block0: cannot resolve the loop bound %s" % hi)
        hi = mm[0]
    t["blockConds"] = [_norm(c) for c in conds[:2]]
    t["blockResetLo"] = _norm(lo)
    t["blockResetHi"] = _norm(hi).split("+")

    pb = _func_body(parse, r"static\s+hawk_nde_t\*\s+parse_block\s*\([^)]*\)\s*\{")
    pb = re.sub(r"#if 1(.*?)#else.*?#endif", r"\1", pb, flags=re.S)
    if "#if" in pb and re.search(r"#if[^\n]*\n[^#]*block->\w*nlcls", pb):
        raise TranslateError("parse_block: the block counters are set under an unknown preprocessor condition")
    pbn = re.sub(r"\s+", " ", _strip_comments(pb))
    fields = re.findall(r"block->(\w*nlcls) = ([^;]+);", pbn)
    if not fields:
        raise TranslateError("parse_block no longer sets block->org_nlcls / outer_nlcls / nlcls")
    t["parseBlockFields"] = [(f, _norm(v)) for f, v in fields]
    mo = re.findall(r"\bnlcls_outer = ([^;]+);", pbn)
    if len(mo) != 1:
        raise TranslateError("parse_block: nlcls_outer is assigned %d times" % len(mo))
    t["parseBlockOuter"] = _norm(mo[0])
    return t


def _lpair(xs):
    return "[" + ", ".join('("%s", "%s")' % p for p in xs) + "]"


def _lstr(xs):
    return "[" + ", ".join('"%s"' % x for x in xs) + "]"


def _lopt(xs):
    return "[" + ", ".join("none" if x is None else 'some "%s"' % x for x in xs) + "]"


def render(t):
    o = []
    o.append("/- GENERATED by extract/op_tables.py from lib/run-prv.h, lib/run.c, lib/parse.c -- do not edit.")
    o.append("   Regenerated by every `./check C08`; compared with the hand-written model by `decide` in Props/C08.lean. -/")
    o.append("namespace Hawk.Gen.OpTables")
    o.append("")
    o.append("/-- enumerators of hawk_binop_type_t in declaration order (HAWK_BINOP_ prefix stripped) -/")
    o.append("def binopEnum : List String := " + _lstr(t["binopEnum"]))
    o.append("/-- enumerators of hawk_assop_type_t in declaration order -/")
    o.append("def assopEnum : List String := " + _lstr(t["assopEnum"]))
    o.append("def unropEnum : List String := " + _lstr(t["unropEnum"]))
    o.append("def incopEnum : List String := " + _lstr(t["incopEnum"]))
    o.append("/-- eval_binary: binop_func[opcode] (eval_binop_ prefix stripped; none = HAWK_NULL, handled before the table) -/")
    o.append("def evalBinaryTable : List (Option String) := " + _lopt(t["evalBinaryTable"]))
    o.append("/-- eval_binary: opcodes dispatched on the operand NODES before the table, with their evaluator -/")
    o.append("def evalBinarySpecial : List (String × String) := [" + ", ".join('("%s", "%s")' % p for p in t["evalBinarySpecial"]) + "]")
    o.append("/-- eval_assignment: binop_func[ass->opcode] -/")
    o.append("def evalAssignTable : List (Option String) := " + _lopt(t["evalAssignTable"]))
    o.append("/-- eval_assignment evaluates ass->right before ass->left -/")
    o.append("def assignRhsFirst : Bool := " + ("true" if t["assignRhsFirst"] else "false"))
    o.append("/-- parse.c assign_to_opcode: assop[tok - TOK_ASSN] and the token order TOK_ASSN..TOK_BOR_ASSN -/")
    o.append("def parseAssopTable : List String := " + _lstr(t["parseAssopTable"]))
    o.append("def assnTokens : List String := " + _lstr(t["assnTokens"]))
    o.append("/-- eval_incpre / eval_incpst: (HAWK_INCOP_x, inc_val_int, inc_val_flt as an integer) -/")
    o.append("def incpre : List (String × Int × Int) := [" + ", ".join('("%s", %d, %d)' % x for x in t["incpre"]) + "]")
    o.append("def incpst : List (String × Int × Int) := [" + ", ".join('("%s", %d, %d)' % x for x in t["incpst"]) + "]")
    o.append("/-- parse_unary: token -> HAWK_UNROP_ -/")
    o.append("def unaryTokens : List (String × String) := [" + ", ".join('("%s", "%s")' % p for p in t["unaryTokens"]) + "]")
    o.append("/-- eval_expression0: (node type from HAWK_NDE_GRP on, __evaluator[type - HAWK_NDE_GRP]) -/")
    o.append("def ndeEvaluator : List (String × String) := " + _lpair(t["ndeEvaluator"]))
    o.append("/-- do_assignment: switch (var->type): (node type, assigner) -/")
    o.append("def assignDispatch : List (String × String) := " + _lpair(t["assignDispatch"]))
    o.append("/-- run_block0: the condition for pushing a fresh frame, the condition for resetting a nested block's locals -/")
    o.append("def blockConds : List String := " + _lstr(t["blockConds"]))
    o.append("/-- run_block0: `for (tmp = LO; tmp < HI; tmp++) LCL(tmp) = nil` - LO, and the summands of HI -/")
    o.append("def blockResetLo : String := \"%s\"" % t["blockResetLo"])
    o.append("def blockResetHi : List String := " + _lstr(t["blockResetHi"]))
    o.append("/-- parse_block: what the parser stores in the block node, and what nlcls_outer is -/")
    o.append("def parseBlockFields : List (String × String) := " + _lpair(t["parseBlockFields"]))
    o.append("def parseBlockOuter : String := \"%s\"" % t["parseBlockOuter"])
    o.append("")
    o.append("end Hawk.Gen.OpTables")
    return "\n".join(o) + "\n"


def main(repo, verif):
    t = extract(repo)
    out = os.path.join(verif, "lean", "HawkModel", "Gen", "OpTables.lean")
    content = render(t)
    old = open(out).read() if os.path.exists(out) else None
    if old != content:
        os.makedirs(os.path.dirname(out), exist_ok=True)
        with open(out, "w") as f:
            f.write(content)
        changed = True
    else:
        changed = False
    return t, changed


if __name__ == "__main__":
    repo = os.environ.get("HAWK_REPO", "/repo")
    verif = os.path.dirname(os.path.dirname(os.path.abspath(__file__)))
    t, ch = main(repo, verif)
    print("OpTables.lean %s" % ("rewritten" if ch else "unchanged"))
    for k in ("binopEnum", "evalBinaryTable", "assopEnum", "evalAssignTable", "incpre", "incpst", "assignRhsFirst",
              "ndeEvaluator", "assignDispatch", "blockConds", "blockResetLo", "blockResetHi", "parseBlockFields", "parseBlockOuter"):
        print(k, t[k])
