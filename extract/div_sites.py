#!/usr/bin/env python3
"""C01 translator: every machine integer division / remainder on hawk_int_t operands in the evaluator (lib/run.c) and in
the constant folder (lib/parse.c), with the conditions that dominate it.

Rows of eval_binop_* (run.c) and fold_constants_* (parse.c) are marked `script` (operands come from the script); other
rows (record-number filter of the embedding API, hawk_rtx_setnrflt) are listed with script = false and are not covered
by `div_guards`.
A site is a BinaryOperator / CompoundAssignOperator with opcode / % /= %= whose result type is hawk_int_t and whose
divisor is not an integer literal.  N = canonical text of the dividend, D = of the divisor (casts to hawk_int_t dropped).
Dominating facts are collected on the way from the function body down to the site:
  * the site is in the then-/else-branch of `if (c)` or the 2nd/3rd operand of `c ? :`     -> c true / false
  * an earlier statement of an enclosing block (or of the same case section) is `if (c) S` where S never falls
    through (ends in return / goto / break)                                             -> c false
  * the site is the right operand of `c && ..` / `c || ..`                               -> c true / false
A fact is a conjunction of atoms known true, or a conjunction known false; `!(a || b)` is split into two facts.
Atoms understood: D == k, D != k, N == k, N != k (k an integer literal, possibly negated), N == HAWK_TYPE_MIN(hawk_int_t)
(recognised by its expansion), and the same with operands swapped.  A true-conjunction drops atoms it does not
understand (weaker, sound); a false-conjunction containing one is dropped entirely (sound).
Output: lean/HawkModel/Gen/DivSites.lean; `div_guards` (Props/C01.lean) needs from the facts D != 0 and
not (N = INT_MIN and D = -1) for every row.
"""
import os, re, sys
HERE = os.path.dirname(os.path.abspath(__file__))
sys.path.insert(0, HERE)
import c01_clang as A  # noqa: E402
from c01_clang import kids, strip, unparse, Unknown, C  # noqa: E402

FILES = ["run.c", "parse.c"]
INT_MIN_TXT = None


def drop_int_casts(n):
    n = strip(n)
    while n.get("kind") == "CStyleCastExpr" and n["type"]["qualType"] in ("hawk_int_t", "hawk_intptr_t", "hawk_intmax_t", "long"):
        n = strip(kids(n)[0])
    return n


def canon(n):
    return unparse(drop_int_casts(n))


def is_int_min(n):
    """HAWK_TYPE_MIN(hawk_int_t) -- recognised by source spelling at the expansion point"""
    b = n.get("range", {}).get("begin", {})
    e = b.get("expansionLoc")
    return bool(e) and e.get("_macro_text", "").replace(" ", "").startswith("HAWK_TYPE_MIN(hawk_int_t)")


def literal(n):
    n = drop_int_casts(n)
    if n.get("kind") == "IntegerLiteral":
        return int(n["value"])
    if n.get("kind") == "UnaryOperator" and n.get("opcode") == "-":
        v = literal(kids(n)[0])
        return -v if v is not None else None
    return None


class Ctx:
    def __init__(self, src):
        self.src = src

    def macro_text(self, n):
        b = n.get("range", {}).get("begin", {})
        e = b.get("expansionLoc")
        if not e:
            return ""
        return self.src[e["offset"]:e["offset"] + 40]

    def atom(self, n, N, D):
        """('d'|'n', 'eq'|'ne', k) | ('n','min',True/False) | None"""
        n = strip(n)
        k, c = n.get("kind"), kids(n)
        if k == "CallExpr" and unparse(c[0]) == "__builtin_expect":
            return self.atom(c[1], N, D)
        if k == "UnaryOperator" and n.get("opcode") == "!":
            inner = strip(c[0])
            if inner.get("kind") == "UnaryOperator" and inner.get("opcode") == "!":
                return self.atom(kids(inner)[0], N, D)
            t = canon(c[0])
            if t == D:
                return ("d", "eq", 0)
            if t == N:
                return ("n", "eq", 0)
            a = self.atom(c[0], N, D)
            if a and a[1] in ("eq", "ne"):
                return (a[0], "ne" if a[1] == "eq" else "eq", a[2])
            return None     # (the negation of D > k is not an atom: dropped)
        if k == "BinaryOperator" and n.get("opcode") in ("==", "!="):
            rel = "eq" if n["opcode"] == "==" else "ne"
            for x, y in ((c[0], c[1]), (c[1], c[0])):
                t = canon(x)
                who = "d" if t == D else ("n" if t == N else None)
                if who is None:
                    continue
                v = literal(y)
                if v is not None:
                    return (who, rel, v)
                if self.macro_text(y).replace(" ", "").startswith("HAWK_TYPE_MIN(hawk_int_t)"):
                    return (who, rel, -2 ** 63)
            return None
        if k == "BinaryOperator" and n.get("opcode") in (">", "<"):
            a, b = (c[0], c[1]) if n["opcode"] == ">" else (c[1], c[0])
            if canon(a) == D and literal(b) is not None:
                return ("d", "gt", literal(b))
            return None
        t = canon(n)
        if t == D:
            return ("d", "ne", 0)
        if t == N:
            return ("n", "ne", 0)
        return None

    def facts(self, cond, truth, N, D):
        """list of facts (pol, [atoms]) implied by `cond` having value `truth`"""
        n = strip(cond)
        k, c = n.get("kind"), kids(n)
        if k == "CallExpr" and unparse(c[0]) == "__builtin_expect":
            return self.facts(c[1], truth, N, D)
        if k == "UnaryOperator" and n.get("opcode") == "!":
            return self.facts(c[0], not truth, N, D)
        if k == "BinaryOperator" and n.get("opcode") == "&&":
            if truth:
                return self.facts(c[0], True, N, D) + self.facts(c[1], True, N, D)
            # not (a && b): one negative conjunction, if every conjunct is an understood atom
            atoms = [self.atom(x, N, D) for x in self.conj(n)]
            return [(False, atoms)] if all(atoms) else []
        if k == "BinaryOperator" and n.get("opcode") == "||":
            if not truth:
                return self.facts(c[0], False, N, D) + self.facts(c[1], False, N, D)
            return []
        a = self.atom(n, N, D)
        if a is None:
            return []
        return [(truth, [a])]

    def conj(self, n):
        n = strip(n)
        if n.get("kind") == "BinaryOperator" and n.get("opcode") == "&&":
            return self.conj(kids(n)[0]) + self.conj(kids(n)[1])
        return [n]


def falls_through(n):
    k, c = n.get("kind"), kids(n)
    if k in ("ReturnStmt", "GotoStmt", "BreakStmt", "ContinueStmt"):
        return False
    if k == "CompoundStmt":
        return all(falls_through(x) for x in c)
    if k == "IfStmt":
        return not (len(c) > 2 and not falls_through(c[1]) and not falls_through(c[2]))
    return True


def sites_in_function(cx, fname, name, body):
    rows = []

    def visit(n, dom):
        """dom: list of (cond node, truth) that dominate n"""
        k, c = n.get("kind"), kids(n)
        if k in ("BinaryOperator", "CompoundAssignOperator") and n.get("opcode") in ("/", "%", "/=", "%="):
            def dq(x):
                t = x.get("type", {})
                return t.get("desugaredQualType", t.get("qualType", ""))
            S64 = ("long", "long long", "hawk_int_t")
            ty = dq(n) if n["kind"] == "BinaryOperator" else n.get("computeResultType", {}).get("desugaredQualType", n.get("computeResultType", {}).get("qualType", ""))
            if ty in S64 and dq(c[0]) in S64 and dq(c[1]) in S64 and literal(c[1]) is None:
                N, D = canon(c[0]), canon(c[1])
                fs = []
                for cond, truth in dom:
                    fs += cx.facts(cond, truth, N, D)
                scope = "script" if (name.startswith("eval_binop_") or name.startswith("fold_constants")) else "api"
                rows.append(dict(file=fname, fn=name, line=A.line_of(n), op=n["opcode"], n=N, d=D, facts=fs, scope=scope))
        if k == "CompoundStmt":
            d = list(dom)
            for x in c:
                x2 = x
                while x2.get("kind") in ("CaseStmt", "DefaultStmt"):
                    d = list(dom)      # a new case section: earlier early-exits of other sections do not dominate
                    x2 = kids(x2)[-1]
                visit(x2, d)
                if x2.get("kind") == "IfStmt":
                    cc = kids(x2)
                    if len(cc) == 2 and not falls_through(cc[1]):
                        d = d + [(cc[0], False)]
                    elif len(cc) == 3 and not falls_through(cc[1]) and falls_through(cc[2]):
                        d = d + [(cc[0], False)]
                    elif len(cc) == 3 and falls_through(cc[1]) and not falls_through(cc[2]):
                        d = d + [(cc[0], True)]
                elif x2.get("kind") == "LabelStmt":
                    d = []
            return
        if k == "LabelStmt":
            visit(c[-1], [])
            return
        if k == "IfStmt":
            visit(c[0], dom)
            visit(c[1], dom + [(c[0], True)])
            if len(c) > 2:
                visit(c[2], dom + [(c[0], False)])
            return
        if k == "ConditionalOperator" and A.is_valtype_macro(n) is not None:
            visit(A.is_valtype_macro(n), dom)
            return
        if k == "ConditionalOperator":
            visit(c[0], dom)
            visit(c[1], dom + [(c[0], True)])
            visit(c[2], dom + [(c[0], False)])
            return
        if k == "BinaryOperator" and n.get("opcode") in ("&&", "||"):
            visit(c[0], dom)
            visit(c[1], dom + [(c[0], n["opcode"] == "&&")])
            return
        if k in ("WhileStmt", "ForStmt", "DoStmt"):
            # conditions inside loops: operands may change between test and use; keep only outer facts
            for x in c:
                visit(x, dom)
            return
        for x in c:
            visit(x, dom)
    visit(body, [])
    return rows


def fact_lean(f):
    pol, atoms = f
    out = []
    for who, rel, v in atoms:
        out.append(".%s%s (%d)" % (who, {"eq": "Eq", "ne": "Ne", "gt": "Gt"}[rel], v))
    return "⟨%s, [%s]⟩" % ("true" if pol else "false", ", ".join(out))


def generate():
    rows = []
    for f in FILES:
        path = os.path.join(C.REPO, "lib", f)
        ast, src = A.load_ast(path)
        cx = Ctx(src)
        for name, decl, body in A.functions(ast, path):
            rows += sites_in_function(cx, f, name, body)
    want = {"eval_binop_div", "eval_binop_idiv", "eval_binop_mod", "fold_constants_for_binop"}
    have = {r["fn"] for r in rows}
    if not want <= have:
        raise Unknown("no integer division site found in %s: the translator no longer understands the sources" % sorted(want - have))
    L = ["/-! GENERATED by extract/div_sites.py from lib/run.c and lib/parse.c — do not edit.",
         "One row per machine `/` or `%` on hawk_int_t operands, with the facts about dividend N and divisor D that dominate it. -/",
         "namespace Hawk.Gen.DivSites", "",
         "inductive Atom where", "  | dEq (k : Int) | dNe (k : Int) | dGt (k : Int) | nEq (k : Int) | nNe (k : Int)", "  deriving DecidableEq, Repr", "",
         "/-- `pol = true`: every atom holds.  `pol = false`: not all atoms hold. -/",
         "structure Fact where", "  pol : Bool", "  atoms : List Atom", "  deriving DecidableEq, Repr", "",
         "structure Row where", "  file : String", "  fn : String", "  line : Nat", "  op : String", "  n : String", "  d : String",
         "  script : Bool", "  facts : List Fact", "", "def rows : List Row := ["]
    L.append(",\n".join("  ⟨%s, %s, %d, %s, %s, %s, %s, [%s]⟩" % (A.lean_str(r["file"]), A.lean_str(r["fn"]), r["line"], A.lean_str(r["op"]),
             A.lean_str(r["n"]), A.lean_str(r["d"]), "true" if r["scope"] == "script" else "false", ", ".join(fact_lean(f) for f in r["facts"])) for r in rows))
    L += ["]", "", "end Hawk.Gen.DivSites", ""]
    return "\n".join(L), rows


def main():
    txt, rows = generate()
    out = os.path.join(C.LEAN, "HawkModel", "Gen", "DivSites.lean")
    ch = C.write_if_changed(out, txt)
    print("div_sites: %d sites -> %s%s" % (len(rows), out, " (changed)" if ch else ""))
    return rows


if __name__ == "__main__":
    rows = main()
    if "-v" in sys.argv:
        for r in rows:
            print("%-8s %-26s %5d %-2s N=%-34s D=%-34s %s" % (r["file"], r["fn"], r["line"], r["op"], r["n"][:34], r["d"][:34],
                  "; ".join(("" if p else "not ") + "&".join("%s%s%d" % (w.upper(), {"eq": "==", "ne": "!=", "gt": ">"}[rel], v) for w, rel, v in a) for p, a in r["facts"])))
