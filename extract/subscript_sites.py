#!/usr/bin/env python3
"""C01 translator: every subscript into an array of declared (constant) length.

Scope: lib/run.c fnc.c val.c rec.c rio.c misc.c parse.c tree.c mod-str.c mod-hawk.c.  One row per ArraySubscriptExpr whose
base, after parentheses / array-to-pointer decay, has a constant array type `T [N]` (struct members such as
rtx->gbl.fs[2], hawk_val_rex_t.code[2], rtx->vmgr.*cache[], hawk->parse.depth, local conversion buffers `tmp[64]`,
static tables such as binop_func[], __evaluator[], assop_str[] whose length comes from the initializer).
The index is classified:
  lit k     an integer constant (literal, folded constant expression, enumerator)                     needs k < N
  bool      the IGNORECASE flag (values proved {0,1} by flag_index_range), a comparison, `!x`          needs 2 <= N
  below h   dominated (extract/c01_paths.py) by  idx < h / idx <= h-1  with h a constant or
            HAWK_COUNTOF(array), incl. the condition of an enclosing for/while on an index that the
            body does not modify before the use;  idx % h;  idx & (h-1)                                needs h <= N
  enumT h   the index expression has an enum type whose largest enumerator is h-1 (value-type name
            tables, node-type tables).  Trusted by type: C does not check that the value is an
            enumerator; listed separately                                                              needs h <= N
  open      none of these (the theorem pins the list of functions that contain such rows)
Output: lean/HawkModel/Gen/SubscriptSites.lean; `subscripts_in_range` (Props/C01.lean).
"""
import os, re, sys
from concurrent.futures import ProcessPoolExecutor
HERE = os.path.dirname(os.path.abspath(__file__))
sys.path.insert(0, HERE)
import c01_clang as A  # noqa: E402
from c01_clang import kids, strip, unparse, Unknown, C  # noqa: E402
import c01_paths as P  # noqa: E402
import switch_sites as SW  # noqa: E402

A.COUNTOF_AS_NUMBER = True
FILES = ["run.c", "fnc.c", "val.c", "rec.c", "rio.c", "misc.c", "parse.c", "tree.c", "mod-str.c", "mod-hawk.c"]
ARR = re.compile(r"(.*\S)\s*\[(\d+)\]$")


def const_value(n, cid):
    n = P.uncast(n)
    k = n.get("kind")
    if k == "IntegerLiteral":
        return int(n["value"])
    if k == "ConstantExpr" and "value" in n:
        return int(n["value"])
    if k == "DeclRefExpr" and n["referencedDecl"].get("kind") == "EnumConstantDecl":
        r = cid.get(n["referencedDecl"]["id"])
        return r[1] if r else None
    if k == "BinaryOperator":
        v = A.countof(n)
        if v is not None:
            return v
        a, b = [const_value(x, cid) for x in kids(n)]
        if a is None or b is None:
            return None
        op = n.get("opcode")
        return {"+": a + b, "-": a - b, "*": a * b}.get(op)
    return None


SENTINEL = re.compile(r"_(NUM|MAX|COUNT|NUMS)$")


def enum_of_type(n, vals, tdn_rev, names):
    """index expression typed as an enum -> (name, number of proper values): a last enumerator named *_NUM / *_MAX / *_COUNT is the count itself"""
    t = n.get("type", {})
    for key in (t.get("desugaredQualType", ""), t.get("qualType", "")):
        key = key.replace("enum ", "").strip()
        k2 = key if key in vals else tdn_rev.get(key)
        if k2 in vals:
            hi = max(vals[k2]) + 1
            if names.get(k2) and SENTINEL.search(names[k2][-1] or ""):
                hi -= 1
            return key, hi
    return None


def scan(f):
    path = os.path.join(C.REPO, "lib", f)
    ast, src = A.load_ast(path)
    cid, vals, names = SW.enums_of(ast)
    tdn = SW.typedef_names(ast)
    tdn_rev = {v: k for k, v in tdn.items()}
    rows = []
    for name, decl, body in A.functions(ast, path):
        copies = set()

        def pre(x, d):
            c = kids(x)
            if x.get("kind") == "BinaryOperator" and x.get("opcode") == "=" and strip(c[0]).get("kind") == "DeclRefExpr":
                r = strip(c[1])
                if r.get("kind") == "MemberExpr" and r.get("name") == "ignorecase":
                    copies.add(strip(c[0])["referencedDecl"]["name"])
            if x.get("kind") == "VarDecl" and c:
                r = strip(c[-1])
                if r.get("kind") == "MemberExpr" and r.get("name") == "ignorecase":
                    copies.add(x["name"])
        A.walk(body, pre)

        addr = set()

        def cb(x, facts):
            if x.get("kind") == "UnaryOperator" and x.get("opcode") == "&" and strip(kids(x)[0]).get("kind") == "ArraySubscriptExpr":
                addr.add(id(strip(kids(x)[0])))      # &a[N] (one past the end) is a valid address
            if x.get("kind") != "ArraySubscriptExpr":
                return
            c = kids(x)
            base = c[0]
            while base.get("kind") in ("ParenExpr",) or (base.get("kind") == "ImplicitCastExpr" and base.get("castKind") in ("ArrayToPointerDecay", "NoOp", "LValueToRValue")):
                if base.get("kind") == "ImplicitCastExpr" and base.get("castKind") == "ArrayToPointerDecay":
                    base = kids(base)[0]
                    break
                base = kids(base)[0]
            else:
                return
            m = ARR.match(base.get("type", {}).get("qualType", ""))
            if not m:
                return
            n = int(m.group(2))
            try:
                arr = unparse(base)
            except Unknown:
                arr = "?"
            idx = P.uncast(c[1])
            try:
                it = unparse(idx)
            except Unknown:
                it = "?"
            row = dict(file=f, fn=name, line=A.line_of(x), arr=arr[:60], len=n, idx=it[:60])
            v = const_value(idx, cid)
            if v is not None and v >= 0:
                row.update(cls="lit", h=v if not (id(x) in addr and v == n) else v - 1)
            elif (idx.get("kind") == "MemberExpr" and idx.get("name") == "ignorecase") or (idx.get("kind") == "DeclRefExpr" and idx["referencedDecl"]["name"] in copies) \
                    or (idx.get("kind") == "BinaryOperator" and idx.get("opcode") in ("<", "<=", ">", ">=", "==", "!=", "&&", "||")) \
                    or (idx.get("kind") == "UnaryOperator" and idx.get("opcode") == "!"):
                row.update(cls="bool", h=2)
            elif idx.get("kind") == "BinaryOperator" and idx.get("opcode") == "%" and (const_value(kids(idx)[1], cid) or 0) > 0 \
                    and re.search(r"unsigned|_oow_t|uint", idx.get("type", {}).get("desugaredQualType", "") + " " + idx.get("type", {}).get("qualType", "")):
                row.update(cls="below", h=const_value(kids(idx)[1], cid))
            elif idx.get("kind") == "BinaryOperator" and idx.get("opcode") == "&" and 0 <= (const_value(kids(idx)[1], cid) if const_value(kids(idx)[1], cid) is not None else -1) < n:
                row.update(cls="below", h=const_value(kids(idx)[1], cid) + 1)
            else:
                key = re.sub(r"(\+\+|--)", "", it)
                best = None
                for ft in facts:
                    mm = re.fullmatch(r"\((.+?)(<=|<)(\d+)\)", ft)
                    if mm and mm.group(1) == key:
                        h = int(mm.group(3)) + (1 if mm.group(2) == "<=" else 0)
                        best = h if best is None else min(best, h)
                    mm = re.fullmatch(r"\((\d+)(>=|>)(.+)\)", ft)
                    if mm and mm.group(3) == key:
                        h = int(mm.group(1)) + (1 if mm.group(2) == ">=" else 0)
                        best = h if best is None else min(best, h)
                post = idx.get("kind") == "UnaryOperator" and idx.get("opcode") in ("++", "--") and not idx.get("isPostfix")
                if best is not None and not post and (idx.get("kind") != "UnaryOperator" or idx.get("opcode") == "++" and idx.get("isPostfix")):
                    row.update(cls="below", h=best)
                else:
                    e = enum_of_type(idx, vals, tdn_rev, names)
                    if e:
                        row.update(cls="enumT", h=e[1])
                    else:
                        row.update(cls="open", h=0)
            rows.append(row)
        P.visit(body, cb)
    return rows


def generate():
    files = [f for f in FILES if os.path.exists(os.path.join(C.REPO, "lib", f))]
    if len(files) < 9:
        raise Unknown("anchored sources missing: %r" % files)
    with ProcessPoolExecutor(3) as ex:
        rows = [r for rs in ex.map(scan, files) for r in rs]
    if len(rows) < 60:
        raise Unknown("only %d subscripts into arrays of declared length found" % len(rows))
    if not any(r["arr"].endswith("gbl.fs") for r in rows) or not any(r["cls"] == "below" for r in rows):
        raise Unknown("rtx->gbl.fs[] / bounded-index sites not recognised any more")
    L = ["/-! GENERATED by extract/subscript_sites.py — do not edit.  Subscripts into arrays of declared length. -/",
         "namespace Hawk.Gen.SubscriptSites", "",
         "inductive Cls where", "  | lit | bool | below | enumT | open", "  deriving DecidableEq, Repr", "",
         "structure Row where", "  file : String", "  fn : String", "  line : Nat", "  arr : String", "  len : Nat", "  idx : String", "  cls : Cls", "  h : Nat", "",
         "def rows : List Row := [",
         ",\n".join("  ⟨%s, %s, %d, %s, %d, %s, .%s, %d⟩" % (A.lean_str(r["file"]), A.lean_str(r["fn"]), r["line"], A.lean_str(r["arr"]), r["len"], A.lean_str(r["idx"]), r["cls"], r["h"])
                    for r in rows), "]", "",
         "end Hawk.Gen.SubscriptSites", ""]
    return "\n".join(L), rows


def row_ok(r):
    return {"lit": r["h"] < r["len"], "bool": 2 <= r["len"], "below": r["h"] <= r["len"], "enumT": r["h"] <= r["len"], "open": False}[r["cls"]]


def main():
    txt, rows = generate()
    out = os.path.join(C.LEAN, "HawkModel", "Gen", "SubscriptSites.lean")
    ch = C.write_if_changed(out, txt)
    dist = {}
    for r in rows:
        dist[r["cls"]] = dist.get(r["cls"], 0) + 1
    bad = [r for r in rows if r["cls"] != "open" and not row_ok(r)]
    print("subscript_sites: %d subscripts %s, %d classified but out of range, open in %s -> %s%s" % (
        len(rows), sorted(dist.items()), len(bad), sorted({(r["file"], r["fn"]) for r in rows if r["cls"] == "open"}), out, " (changed)" if ch else ""))
    return rows, bad


if __name__ == "__main__":
    rows, bad = main()
    if "-v" in sys.argv:
        for r in rows:
            print("sub", r)
    for r in bad:
        print("OUT-OF-RANGE", r)
