"""Shared helper for the C01 translators: path facts.

`visit(body, cb)` walks a function body and calls `cb(node, facts)` for every expression/statement node, where
`facts` is the list of canonical condition texts known to hold when control reaches the node:
  * the conjuncts of every enclosing `if` / `?:` / `for` / `while` condition on the taken side (`a && b` gives a and b;
    the false side of `a || b` gives !a and !b; the false side of a single comparison gives the complementary
    comparison; the right operand of `&&` is visited under the left one, of `||` under its negation);
  * the complement of the condition of every EARLIER sibling statement `if (c) { ...; return/goto/break/continue; }`
    (without else) in an enclosing block.
A fact is dropped as soon as a statement that modifies (`=`, op=, ++, --, address taken) a variable named in it has been
passed in the same block, and loop-condition facts are dropped for the part of the body after such a statement.
`++x`/`--x` inside a condition is read as x (the comparison sees the new value).  The walk is purely syntactic; anything
whose shape it does not know is visited without adding facts (fewer facts = more rejected rows = fail closed).
"""
import re
from c01_clang import kids, strip, unparse

NEG = {"<": ">=", ">=": "<", ">": "<=", "<=": ">", "==": "!=", "!=": "=="}
EXITS = ("ReturnStmt", "GotoStmt", "BreakStmt", "ContinueStmt")


def callee(n):
    n = strip(n)
    if n.get("kind") == "CallExpr":
        f = strip(kids(n)[0])
        if f.get("kind") == "DeclRefExpr":
            return f["referencedDecl"]["name"]
    return None


def uncast(n):
    n = strip(n)
    while n.get("kind") == "CStyleCastExpr":
        n = strip(kids(n)[0])
    return n


def cond_core(n):
    """drop __builtin_expect(!!(x), k)"""
    n = strip(n)
    if n.get("kind") == "CallExpr" and callee(n) == "__builtin_expect":
        a = strip(kids(n)[1])
        while a.get("kind") == "UnaryOperator" and a.get("opcode") == "!" and strip(kids(a)[0]).get("kind") == "UnaryOperator" \
                and strip(kids(a)[0]).get("opcode") == "!":
            a = strip(kids(strip(kids(a)[0]))[0])
        return cond_core(a)
    return n


def ctext(n):
    """canonical text of an atomic condition: casts on comparison operands dropped, ++x/--x read as x"""
    n = cond_core(n)
    if n.get("kind") == "BinaryOperator" and n.get("opcode") in NEG:
        a, b = kids(n)
        t = "(%s%s%s)" % (unparse(uncast(a)), n["opcode"], unparse(uncast(b)))
    else:
        t = unparse(n)
    return re.sub(r"(\+\+|--)(\w+)", r"\2", t)


def pos_facts(n):
    n = cond_core(n)
    if n.get("kind") == "BinaryOperator" and n.get("opcode") == "&&":
        return pos_facts(kids(n)[0]) + pos_facts(kids(n)[1])
    if n.get("kind") == "UnaryOperator" and n.get("opcode") == "!":
        return neg_facts(kids(n)[0])
    return [ctext(n)]


def neg_facts(n):
    n = cond_core(n)
    if n.get("kind") == "BinaryOperator" and n.get("opcode") == "||":
        return neg_facts(kids(n)[0]) + neg_facts(kids(n)[1])
    if n.get("kind") == "BinaryOperator" and n.get("opcode") == "&&":
        return []          # !(a && b) is a disjunction: no conjunctive fact
    if n.get("kind") == "UnaryOperator" and n.get("opcode") == "!":
        return pos_facts(kids(n)[0])
    if n.get("kind") == "BinaryOperator" and n.get("opcode") in NEG:
        a, b = kids(n)
        t = "(%s%s%s)" % (unparse(uncast(a)), NEG[n["opcode"]], unparse(uncast(b)))
        return [re.sub(r"(\+\+|--)(\w+)", r"\2", t)]
    return ["!" + ctext(n)]


def modified_vars(n):
    """names of local variables / parameters assigned, incremented or address-taken anywhere inside n"""
    out = set()

    def base(x):
        x = uncast(x)
        while x.get("kind") in ("MemberExpr", "ArraySubscriptExpr") and not (x.get("kind") == "MemberExpr" and x.get("isArrow")):
            x = uncast(kids(x)[0])
        if x.get("kind") == "DeclRefExpr":
            return x["referencedDecl"]["name"]
        return None

    def w(x):
        k = x.get("kind")
        c = kids(x)
        if (k == "BinaryOperator" and x.get("opcode") == "=") or k == "CompoundAssignOperator":
            b = base(c[0])
            if b:
                out.add(b)
        elif k == "UnaryOperator" and x.get("opcode") in ("++", "--", "&"):
            b = base(c[0])
            if b:
                out.add(b)
        for y in c:
            w(y)
    w(n)
    return out


def mentions(fact, names):
    return any(re.search(r"(?<![\w>.])%s(?![\w])" % re.escape(v), fact) for v in names)


def always_exits(n):
    """the statement never falls through to its successor"""
    k = n.get("kind")
    if k in EXITS:
        return True
    if k == "CompoundStmt":
        c = kids(n)
        return bool(c) and always_exits(c[-1])
    if k == "IfStmt":
        raw = n.get("inner") or []
        return len(raw) == 3 and always_exits(raw[1]) and always_exits(raw[2])
    return False


def cond_facts(c, facts, positive):
    """facts holding after condition `c` evaluated to `positive`: the incoming facts minus those about variables the
    condition itself modifies (`++i >= n`), plus the condition's own conjuncts minus those about variables it modifies
    other than by pre-increment (after `i++ < n` the fact is about the old value)"""
    mv = modified_vars(c)
    base = [f for f in facts if not mentions(f, mv)]
    stale = mv - _incvars(c)
    new = pos_facts(c) if positive else neg_facts(c)
    return base + [f for f in new if not mentions(f, stale)]


def visit(n, cb, facts=()):
    facts = list(facts)
    k = n.get("kind")
    raw = n.get("inner") or []
    if k == "CompoundStmt":
        cur = list(facts)
        for s in kids(n):
            visit(s, cb, cur)
            mv = modified_vars(s)
            if mv:
                cur = [f for f in cur if not mentions(f, mv)]
            if s.get("kind") == "IfStmt":
                r = s.get("inner") or []
                if len(r) == 2 and always_exits(r[1]):
                    cur = cond_facts(r[0], cur, False)
        return
    if k == "IfStmt":
        cb(n, facts)
        visit_cond(raw[0], cb, facts)
        visit(raw[1], cb, cond_facts(raw[0], facts, True))
        if len(raw) > 2 and raw[2]:
            visit(raw[2], cb, cond_facts(raw[0], facts, False))
        return
    if k == "ConditionalOperator":
        cb(n, facts)
        c = kids(n)
        visit_cond(c[0], cb, facts)
        visit(c[1], cb, cond_facts(c[0], facts, True))
        visit(c[2], cb, cond_facts(c[0], facts, False))
        return
    if k == "ForStmt" and len(raw) == 5:
        cb(n, facts)
        init, _, cnd, inc, body = raw
        if init:
            visit(init, cb, facts)
        mv = modified_vars(body) | (modified_vars(inc) if inc else set()) | (modified_vars(init) if init else set())
        inner = [f for f in facts if not mentions(f, mv)]
        if cnd:
            visit_cond(cnd, cb, inner)
        bf = cond_facts(cnd, inner, True) if cnd else inner
        visit(body, cb, bf)
        if inc:
            visit(inc, cb, inner)
        return
    if k == "WhileStmt" and len(raw) == 2:
        cb(n, facts)
        mv = modified_vars(raw[1]) | modified_vars(raw[0])
        inner = [f for f in facts if not mentions(f, mv)]
        visit_cond(raw[0], cb, inner)
        visit(raw[1], cb, cond_facts(raw[0], inner, True))
        return
    if k == "DoStmt" and len(raw) == 2:
        cb(n, facts)
        mv = modified_vars(raw[0]) | modified_vars(raw[1])
        inner = [f for f in facts if not mentions(f, mv)]
        visit(raw[0], cb, inner)
        visit_cond(raw[1], cb, inner)
        return
    if k == "BinaryOperator" and n.get("opcode") in ("&&", "||"):
        visit_cond(n, cb, facts)
        return
    cb(n, facts)
    for c in kids(n):
        visit(c, cb, facts)


def _incvars(c):
    """variables pre-incremented inside a condition (their NEW value is what the comparison saw)"""
    out = set()

    def w(x):
        if x.get("kind") == "UnaryOperator" and x.get("opcode") in ("++", "--") and not x.get("isPostfix"):
            y = uncast(kids(x)[0])
            if y.get("kind") == "DeclRefExpr":
                out.add(y["referencedDecl"]["name"])
        for y in kids(x):
            w(y)
    w(c)
    return out


def visit_cond(n, cb, facts):
    m = cond_core(n)
    if m.get("kind") == "BinaryOperator" and m.get("opcode") in ("&&", "||"):
        cb(m, facts)
        a, b = kids(m)
        visit_cond(a, cb, facts)
        visit_cond(b, cb, cond_facts(a, facts, m["opcode"] == "&&"))
        return
    visit(n, cb, facts)
